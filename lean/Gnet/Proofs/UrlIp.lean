/-
  tcp*/udp* addresses: `parseHost` on the three host forms and the exactness of `urlParse`
  (list level).
-/
import Gnet.Proofs.UrlParse
namespace Gnet.Proofs.Url
open Gnet Gnet.Url

/-- text that may stand in the authority / path part without ending it early -/
def Safe (l : Bytes) : Prop := ∀ c ∈ l, isCTL c = false ∧ c ≠ '#' ∧ c ≠ '?'

theorem Safe.append {a b} (ha : Safe a) (hb : Safe b) : Safe (a ++ b) := by
  intro x hx; rcases List.mem_append.mp hx with hx | hx
  · exact ha x hx
  · exact hb x hx
theorem Safe.cons {c l} (hc : isCTL c = false ∧ c ≠ '#' ∧ c ≠ '?') (hl : Safe l) : Safe (c :: l) := by
  intro x hx; rcases List.mem_cons.mp hx with rfl | hx
  · exact hc
  · exact hl x hx
theorem Safe.nil : Safe [] := fun _ h => by simp at h
theorem Plain.safe {l} (h : Plain l) : Safe l := by
  intro c hc
  have := plain_ne (h c hc)
  exact ⟨plain_notCTL (h c hc), this.2.1, this.2.2.1⟩

theorem Safe.noCTL {l} (h : Safe l) : l.any isCTL = false := by
  rw [List.any_eq_false]; intro c hc; simp [(h c hc).1]
theorem Safe.no_hash {l} (h : Safe l) : '#' ∉ l := fun hm => (h _ hm).2.1 rfl
theorem Safe.no_qm {l} (h : Safe l) : '?' ∉ l := fun hm => (h _ hm).2.2 rfl

theorem lowerWord_plain {s} (hs : isSchemeWord s = true) : Plain s :=
  Plain.of_all (schemeWord_all hs) (fun c hc => by unfold plain; unfold lowerOrDigit at hc; char_arith)

/-- `url.Parse` on  scheme "://" authority path -/
theorem urlParse_authority (s au p : Bytes) (hs : isSchemeWord s = true)
    (hau : Safe au) (hsl : '/' ∉ au) (hp : Safe p) (hpl : PathLike p) :
    urlParse (s ++ ':' :: '/' :: '/' :: (au ++ p)) = afterAuthority s au p := by
  have hall : Safe (s ++ ':' :: '/' :: '/' :: (au ++ p)) :=
    (lowerWord_plain hs).safe.append
      (Safe.cons (by decide) (Safe.cons (by decide) (Safe.cons (by decide) (hau.append hp))))
  rw [urlParse_noFrag hall.no_hash]
  exact parseNoFrag_authority s au p hs hall.noCTL (hau.append hp).no_qm hsl hpl

theorem parseAuthority_noAt {au : Bytes} (h : '@' ∉ au) : parseAuthority au = parseHost au := by
  unfold parseAuthority; rw [splitLast_none h]

/-! ## the three host forms -/

theorem digits_plain {p : Bytes} (h : p.all isDigit = true) : Plain p :=
  Plain.of_all h (fun _ => plain_of_digit)

theorem name_plain {h : Bytes} (hh : h.all nameChar = true) : Plain h :=
  Plain.of_all hh (fun _ => plain_of_name)

theorem hexColon_plain {h : Bytes} (hh : h.all hexColonChar = true) : Plain h :=
  Plain.of_all hh (fun _ => plain_of_hexColon)

theorem zone_plain {h : Bytes} (hh : h.all zoneChar = true) : Plain h :=
  Plain.of_all hh (fun _ => plain_of_zone)

theorem digits_no {p : Bytes} (h : p.all isDigit = true) {c : Char} (hc : isDigit c = false) :
    c ∉ p := by
  intro hm; have := List.all_eq_true.mp h c hm; simp [hc] at this

/-- form (a) -/
theorem parseHost_name {h port : Bytes} (hh : isNameHost h = true) (hp : port.all isDigit = true) :
    parseHost (h ++ ':' :: port) = some (h ++ ':' :: port) := by
  simp [isNameHost] at hh
  obtain ⟨hne, hall⟩ := hh
  have hpl : Plain (h ++ ':' :: port) :=
    (name_plain (by simpa using hall)).append (Plain.cons (by decide) (digits_plain hp))
  unfold parseHost
  have hhead : (h ++ ':' :: port).head? ≠ some '[' := by
    cases h with
    | nil => exact absurd rfl hne
    | cons x xs =>
      have hx : nameChar x = true := hall x (by simp)
      simp; intro e; subst e; revert hx; decide
  rw [if_neg hhead, splitLast_append (digits_no hp (by decide))]
  simp only [hp, if_true]
  exact unescape_host_plain hpl

/-- form (b) -/
theorem parseHost_v6 {a port : Bytes} (ha : a.all hexColonChar = true) (hp : port.all isDigit = true) :
    parseHost ('[' :: a ++ ']' :: ':' :: port) = some ('[' :: a ++ ']' :: ':' :: port) := by
  have hin : Plain ('[' :: a) := Plain.cons (by decide) (hexColon_plain ha)
  have hpl : Plain ('[' :: a ++ ']' :: ':' :: port) :=
    hin.append (Plain.cons (by decide) (Plain.cons (by decide) (digits_plain hp)))
  unfold parseHost
  have hno : ']' ∉ ':' :: port := by
    intro hm; rcases List.mem_cons.mp hm with e | hm
    · revert e; decide
    · exact digits_no hp (by decide) hm
  rw [if_pos (by simp), splitLast_append hno]
  simp only [validOptionalPort, hp, decide_true, Bool.and_self, Bool.not_true, Bool.false_eq_true,
    if_false, splitPct25_none hin.no_pct]
  exact unescape_host_plain hpl

/-- form (c), after `parseProtoAddr` has escaped the '%' -/
theorem parseHost_v6zone {a z port : Bytes} (ha : a.all hexColonChar = true)
    (hz : z.all zoneChar = true) (hp : port.all isDigit = true) :
    parseHost (('[' :: a ++ '%' :: '2' :: '5' :: z) ++ ']' :: ':' :: port) =
      some ('[' :: a ++ '%' :: z ++ ']' :: ':' :: port) := by
  have hin : Plain ('[' :: a) := Plain.cons (by decide) (hexColon_plain ha)
  have hzp : Plain z := zone_plain hz
  have htail : Plain (']' :: ':' :: port) :=
    Plain.cons (by decide) (Plain.cons (by decide) (digits_plain hp))
  unfold parseHost
  have hno : ']' ∉ ':' :: port := by
    intro hm; rcases List.mem_cons.mp hm with e | hm
    · revert e; decide
    · exact digits_no hp (by decide) hm
  rw [if_pos (by simp), splitLast_append hno]
  simp only [validOptionalPort, hp, decide_true, Bool.and_self, Bool.not_true, Bool.false_eq_true,
    if_false, splitPct25_append hin.no_pct, unescape_host_plain hin, unescape_zone_pct25 hzp,
    unescape_host_plain htail]

/-! ## `url.Parse` of the escaped address, list level -/

theorem urlParse_host (s au : Bytes) (hs : isSchemeWord s = true) (hau : Safe au)
    (hsl : '/' ∉ au) (hat : '@' ∉ au) :
    urlParse (s ++ ':' :: '/' :: '/' :: au) =
      match parseHost au with
      | none => .error
      | some h => .ok s h [] := by
  have := urlParse_authority s au [] hs hau hsl Safe.nil (Or.inl rfl)
  rw [List.append_nil] at this
  rw [this]; unfold afterAuthority
  rw [parseAuthority_noAt hat]
  cases parseHost au <;> simp [unescape]

theorem escapePercent_plain_append {a : Bytes} (h : Plain a) (b : Bytes) :
    escapePercent (a ++ b) = a ++ escapePercent b := by
  rw [escapePercent_append, escapePercent_id h.no_pct]

theorem escapePercent_cons_plain {c : Char} (h : plain c = true) (l : Bytes) :
    escapePercent (c :: l) = c :: escapePercent l :=
  escapePercent_cons_ne (plain_ne h).1 l

/-- an address made of plain text only: `url.Parse` returns the authority as the host -/
theorem urlParse_plain (s au : Bytes) (hs : isSchemeWord s = true) (hau : Plain au) :
    urlParse (escapePercent (s ++ ':' :: '/' :: '/' :: au)) =
      match parseHost au with
      | none => .error
      | some h => .ok s h [] := by
  rw [escapePercent_plain_append (lowerWord_plain hs), escapePercent_cons_plain (by decide),
    escapePercent_cons_ne (by decide), escapePercent_cons_ne (by decide),
    escapePercent_id hau.no_pct]
  exact urlParse_host s au hs hau.safe hau.no_slash hau.no_at

theorem urlParse_name {s h port : Bytes} (hs : isSchemeWord s = true) (hh : isNameHost h = true)
    (hp : port.all isDigit = true) :
    urlParse (escapePercent (s ++ ':' :: '/' :: '/' :: (h ++ ':' :: port))) =
      .ok s (h ++ ':' :: port) [] := by
  have hpl : Plain (h ++ ':' :: port) := by
    simp [isNameHost] at hh
    exact (name_plain (by simpa using hh.2)).append (Plain.cons (by decide) (digits_plain hp))
  rw [urlParse_plain s _ hs hpl, parseHost_name hh hp]

theorem urlParse_v6 {s a port : Bytes} (hs : isSchemeWord s = true)
    (ha : a.all hexColonChar = true) (hp : port.all isDigit = true) :
    urlParse (escapePercent (s ++ ':' :: '/' :: '/' :: ('[' :: a ++ ']' :: ':' :: port))) =
      .ok s ('[' :: a ++ ']' :: ':' :: port) [] := by
  have hpl : Plain ('[' :: a ++ ']' :: ':' :: port) :=
    (Plain.cons (by decide) (hexColon_plain ha)).append
      (Plain.cons (by decide) (Plain.cons (by decide) (digits_plain hp)))
  rw [urlParse_plain s _ hs hpl, parseHost_v6 ha hp]

theorem urlParse_v6zone {s a z port : Bytes} (hs : isSchemeWord s = true)
    (ha : a.all hexColonChar = true) (hz : z.all zoneChar = true) (hp : port.all isDigit = true) :
    urlParse (escapePercent (s ++ ':' :: '/' :: '/' :: ('[' :: a ++ '%' :: z ++ ']' :: ':' :: port))) =
      .ok s ('[' :: a ++ '%' :: z ++ ']' :: ':' :: port) [] := by
  have hin : Plain ('[' :: a) := Plain.cons (by decide) (hexColon_plain ha)
  have htail : Plain ('2' :: '5' :: z ++ ']' :: ':' :: port) :=
    (Plain.cons (by decide) (Plain.cons (by decide) (zone_plain hz))).append
      (Plain.cons (by decide) (Plain.cons (by decide) (digits_plain hp)))
  have htail' : Plain (z ++ ']' :: ':' :: port) :=
    (zone_plain hz).append (Plain.cons (by decide) (Plain.cons (by decide) (digits_plain hp)))
  have e : escapePercent (s ++ ':' :: '/' :: '/' :: ('[' :: a ++ '%' :: z ++ ']' :: ':' :: port)) =
      s ++ ':' :: '/' :: '/' :: (('[' :: a ++ '%' :: '2' :: '5' :: z) ++ ']' :: ':' :: port) := by
    rw [escapePercent_plain_append (lowerWord_plain hs), escapePercent_cons_plain (by decide),
      escapePercent_cons_ne (by decide), escapePercent_cons_ne (by decide), List.append_assoc,
      escapePercent_plain_append hin]
    simp only [List.cons_append]
    rw [escapePercent_cons_pct, escapePercent_id htail'.no_pct]
    simp
  have hau : Safe (('[' :: a ++ '%' :: '2' :: '5' :: z) ++ ']' :: ':' :: port) := by
    have : ('[' :: a ++ '%' :: '2' :: '5' :: z) ++ ']' :: ':' :: port =
        '[' :: a ++ '%' :: ('2' :: '5' :: z ++ ']' :: ':' :: port) := by simp
    rw [this]; exact hin.safe.append (Safe.cons (by decide) htail.safe)
  have hmem : ∀ c, c ≠ '%' → plain c = false →
      c ∉ ('[' :: a ++ '%' :: '2' :: '5' :: z) ++ ']' :: ':' :: port := by
    intro c hc hpc hm
    have : ('[' :: a ++ '%' :: '2' :: '5' :: z) ++ ']' :: ':' :: port =
        '[' :: a ++ '%' :: ('2' :: '5' :: z ++ ']' :: ':' :: port) := by simp
    rw [this] at hm
    rcases List.mem_append.mp hm with hm | hm
    · exact hin.not_mem hpc hm
    · rcases List.mem_cons.mp hm with e | hm
      · exact hc e
      · exact htail.not_mem hpc hm
  rw [e, urlParse_host s _ hs hau (hmem _ (by decide) (by decide)) (hmem _ (by decide) (by decide)),
    parseHost_v6zone ha hz hp]

/-! ## the host predicates -/

theorem v6_decompose {h : Bytes} (hh : isV6Host h = true) :
    h = '[' :: inner h ++ [']'] ∧ (inner h).all hexColonChar = true := by
  simp only [isV6Host, Bool.and_eq_true, decide_eq_true_eq] at hh
  exact ⟨hh.1.1, hh.2⟩

theorem v6zone_decompose {h : Bytes} (hh : isV6ZoneHost h = true) :
    h = '[' :: v6Addr h ++ '%' :: v6Zone h ++ [']'] ∧ (v6Addr h).all hexColonChar = true ∧
      (v6Zone h).all zoneChar = true := by
  simp only [isV6ZoneHost, Bool.and_eq_true, decide_eq_true_eq] at hh
  exact ⟨hh.1.1.1.1, hh.1.1.2, hh.2⟩

/-- every host of form (a), (b) or (c): `url.Parse` of the escaped address gives it back -/
theorem urlParse_ip {s h port : Bytes} (hs : isSchemeWord s = true) (hh : isIpHost h = true)
    (hp : port.all isDigit = true) :
    urlParse (escapePercent (s ++ ':' :: '/' :: '/' :: (h ++ ':' :: port))) =
      .ok s (h ++ ':' :: port) [] := by
  simp only [isIpHost, Bool.or_eq_true] at hh
  rcases hh with (hh | hh) | hh
  · exact urlParse_name hs hh hp
  · obtain ⟨e, ha⟩ := v6_decompose hh
    have := urlParse_v6 (s := s) hs ha hp
    rw [e]; simpa using this
  · obtain ⟨e, ha, hz⟩ := v6zone_decompose hh
    have := urlParse_v6zone (s := s) hs ha hz hp
    rw [e]; simpa using this

end Gnet.Proofs.Url
