/-
  Preservation of the wake-up protocol invariant by every transition (C03).
-/
import Gnet.Model.Wake
import Gnet.Proofs.Msq
import Gnet.Proofs.WakeMsq
import Gnet.Proofs.WakeInv
namespace Gnet.Proofs.Wake
open Gnet Gnet.Wake
open Gnet.Proofs.Msq (thr EnqPc DeqPc PendPc)

structure Oblig (s' : State) (tid : Nat) (t' : Thread) : Prop where
  iu : Msq.Inv s'.urgent
  il : Msq.Inv s'.low
  hT : TOk tid t'.pc (Msq.thr s'.urgent tid).pc (Msq.thr s'.low tid).pc
  flag : s'.wakeupCall = 0 ∨ s'.wakeupCall = 1
  i2 : s'.wakeupCall = 1 → s'.edge = true ∨ (∃ j, (wt s' j).pc = .pWrite) ∨ SetI2 (wt s' 0).pc = true
  i3L : s'.low.absQ ≠ [] → s'.edge = true ∨ Pending s' ∨ SetL (wt s' 0).pc = true
  i3U : s'.urgent.absQ ≠ [] → s'.edge = true ∨ Pending s' ∨ SetU (wt s' 0).pc = true
  i4U : s'.urgent.deqLog = s'.executedU ++ inflight (Msq.thr s'.urgent 0)
  i4L : s'.low.deqLog = s'.executedL ++ inflight (Msq.thr s'.low 0)
  lc : (wt s' 0).pc = .lDeqU → (wt s' 0).lowCount = 0

theorem WInv.update {s s' : State} {tid : Nat} {t' : Thread} (W : WInv s) (F : Frame s s' tid t')
    (O : Frame s s' tid t' → Oblig s' tid t') : WInv s' := by
  obtain ⟨iu, il, hT, flag, i2, i3L, i3U, i4U, i4L, lc⟩ := O F
  refine ⟨iu, il, ?_, ?_, ?_, ?_, flag, i2, i3L, i3U, i4U, i4L, lc⟩
  · rw [F.lenU, F.len, W.lenU]
  · rw [F.lenL, F.len, W.lenL]
  · rw [F.len]; exact W.pos
  · intro j
    by_cases hj : j = tid
    · subst hj; rw [F.wt_self]; exact hT
    · rw [F.wt_ne hj, F.neU j hj, F.neL j hj]; exact W.tok j

theorem step_eq {s : State} {tid : Nat} {t : Thread} (ht : s.threads[tid]? = some t) :
    step s tid = (match t.pc with
    | .idle => (s, .none)
    | .lExit => (s, .none)
    | .pLen =>
      if s.urgent.length ≥ s.threshold then
        (setThread { s with low := Msq.start s.low tid (.enq t.task) } tid { t with pc := .pEnqL }, .none)
      else
        (setThread { s with urgent := Msq.start s.urgent tid (.enq t.task) } tid { t with pc := .pEnqU }, .none)
    | .pEnqU =>
      let (q, r) := Msq.step s.urgent tid
      let s := { s with urgent := q }
      (match r with
       | some _ => (setThread s tid { t with pc := .pCas }, .none)
       | none => (s, .none))
    | .pEnqL =>
      let (q, r) := Msq.step s.low tid
      let s := { s with low := q }
      (match r with
       | some _ => (setThread s tid { t with pc := .pCas }, .none)
       | none => (s, .none))
    | .pCas =>
      if s.wakeupCall = 0 then (setThread { s with wakeupCall := 1 } tid { t with pc := .pWrite }, .none)
      else (setThread s tid { t with pc := .idle }, .triggered)
    | .pWrite =>
      (setThread { s with efdCount := s.efdCount + 1, edge := true } tid { t with pc := .idle }, .triggered)
    | .lWait =>
      if s.edge then
        let s := { s with edge := false, msecZero := true }
        (beginDeqU s { t with lowCount := 0 }, .none)
      else if s.msecZero then ({ s with msecZero := false }, .none)
      else (s, .blocked)
    | .lDeqU =>
      let (q, r) := Msq.step s.urgent 0
      let s := { s with urgent := q }
      (match r with
       | some (.deqSome v) =>
         let s := { s with executedU := s.executedU ++ [v] }
         if v = 0 then (setThread s 0 { t with pc := .lExit }, .exited)
         else (beginDeqU s t, .executed v)
       | some .deqNone =>
         if t.lowCount < maxAsync then (beginDeqL s t, .none)
         else (setThread s 0 { t with pc := .lStore }, .none)
       | _ => (s, .none))
    | .lDeqL =>
      let (q, r) := Msq.step s.low 0
      let s := { s with low := q }
      (match r with
       | some (.deqSome v) =>
         let s := { s with executedL := s.executedL ++ [v] }
         if v = 0 then (setThread s 0 { t with pc := .lExit }, .exited)
         else
           let t := { t with lowCount := t.lowCount + 1 }
           if t.lowCount < maxAsync then (beginDeqL s t, .executed v)
           else (setThread s 0 { t with pc := .lStore }, .executed v)
       | some .deqNone => (setThread s 0 { t with pc := .lStore }, .none)
       | _ => (s, .none))
    | .lStore => (setThread { s with wakeupCall := 0 } 0 { t with pc := .lEmptyL }, .none)
    | .lEmptyL =>
      if s.low.length ≠ 0 then (setThread s 0 { t with pc := .lCas }, .none)
      else (setThread s 0 { t with pc := .lEmptyU }, .none)
    | .lEmptyU =>
      if s.urgent.length ≠ 0 then (setThread s 0 { t with pc := .lCas }, .none)
      else (setThread s 0 { t with pc := .lWait }, .none)
    | .lCas =>
      if s.wakeupCall = 0 then (setThread { s with wakeupCall := 1 } 0 { t with pc := .lWrite }, .none)
      else (setThread s 0 { t with pc := .lWait }, .none)
    | .lWrite =>
      (setThread { s with efdCount := s.efdCount + 1, edge := true } 0 { t with pc := .lWait }, .none)) := by
  unfold step
  rw [ht]
  rfl

/-- a thread at a producer pc is a producer -/
theorem WInv.prod_pos {s : State} (W : WInv s) {tid : Nat} (h : LoopPc (wt s tid).pc = false) : 0 < tid := by
  have := (W.tok tid).1
  by_cases h0 : tid = 0
  · simp [h0] at this h; simp [this] at h
  · omega

theorem WInv.loop_zero {s : State} (W : WInv s) {tid : Nat} (h : ProdPc (wt s tid).pc = false) : tid = 0 := by
  have := (W.tok tid).1
  by_cases h0 : tid = 0
  · exact h0
  · simp [h0] at this; simp [this] at h


theorem TOk.moveP {j : Nat} {p' : Pc} {u' l' : Msq.Pc} (h0 : 0 < j)
    (hc : ProdPc p' = true) (hu : okU p' u' = true) (hl : okL p' l' = true) : TOk j p' u' l' := by
  refine ⟨?_, hu, hl⟩
  rw [if_neg (by omega)]; exact hc

theorem TOk.moveL {p' : Pc} {u' l' : Msq.Pc}
    (hc : LoopPc p' = true) (hu : okU p' u' = true) (hl : okL p' l' = true) : TOk 0 p' u' l' :=
  ⟨by simpa using hc, hu, hl⟩

theorem SetI2_SetL {p : Pc} (h : SetI2 p = true) : SetL p = true := by
  cases p <;> simp [SetI2] at h <;> rfl
theorem SetL_SetU {p : Pc} (h : SetL p = true) : SetU p = true := by
  cases p <;> simp [SetL] at h <;> rfl

namespace Frame
variable {s s' : State} {tid : Nat} {t' : Thread}

theorem pending_other (F : Frame s s' tid t') {j : Nat} (hj : j ≠ tid) (h0 : 0 < j)
    (hp : pend (wt s j).pc (thr s.urgent j).pc (thr s.low j).pc = true) : Pending s' :=
  ⟨j, h0, by rw [F.wt_ne hj, F.neU j hj, F.neL j hj]; exact hp⟩

end Frame

/-- a writer is a pending producer -/
theorem WInv.writer_pending {s : State} (W : WInv s) {j : Nat} (h : (wt s j).pc = .pWrite) :
    0 < j ∧ pend (wt s j).pc (thr s.urgent j).pc (thr s.low j).pc = true :=
  ⟨W.prod_pos (by rw [h]; rfl), by rw [h]; rfl⟩

theorem winv_step_pCas {s : State} (W : WInv s) {tid : Nat} {t : Thread} (ht : s.threads[tid]? = some t)
    (hpc : t.pc = .pCas) : WInv (step s tid).1 := by
  have hlt := lt_of_getElem? ht
  have hw := wt_of_getElem? ht
  have h0 : 0 < tid := W.prod_pos (by rw [hw, hpc]; rfl)
  have hT := W.tok tid
  rw [hw, hpc] at hT
  rw [step_eq ht]; simp only [hpc]
  split
  · refine W.update (tid := tid) ⟨hlt, rfl, rfl, rfl, fun _ _ => rfl, fun _ _ => rfl⟩ fun F =>
      ⟨W.iu, W.il, ?_, ?_, ?_, ?_, ?_, W.i4U, W.i4L, ?_⟩
    · exact TOk.moveP h0 rfl hT.2.1 hT.2.2
    · exact Or.inr rfl
    · intro _; exact Or.inr (Or.inl ⟨tid, by rw [F.wt_self]⟩)
    · intro _; exact Or.inr (Or.inl (F.pending_self h0 rfl))
    · intro _; exact Or.inr (Or.inl (F.pending_self h0 rfl))
    · rw [F.wt_ne (by omega)]; exact W.lc
  · rename_i hne
    have h1 : s.wakeupCall = 1 := by rcases W.flag with h | h; exact absurd h hne; exact h
    have key : s.edge = true ∨ Pending (setThread s tid { t with pc := .idle }) ∨
        SetI2 (wt s 0).pc = true := by
      rcases W.i2 h1 with h | ⟨j, hj⟩ | h
      · exact Or.inl h
      · have hne : j ≠ tid := by intro e; subst e; rw [hw, hpc] at hj; cases hj
        have F : Frame s (setThread s tid { t with pc := .idle }) tid { t with pc := .idle } :=
          ⟨hlt, rfl, rfl, rfl, fun _ _ => rfl, fun _ _ => rfl⟩
        exact Or.inr (Or.inl (F.pending_other hne (W.writer_pending hj).1 (W.writer_pending hj).2))
      · exact Or.inr (Or.inr h)
    refine W.update (tid := tid) ⟨hlt, rfl, rfl, rfl, fun _ _ => rfl, fun _ _ => rfl⟩ fun F =>
      ⟨W.iu, W.il, ?_, W.flag, ?_, ?_, ?_, W.i4U, W.i4L, ?_⟩
    · exact TOk.moveP h0 rfl hT.2.1 hT.2.2
    · intro _
      rcases W.i2 h1 with h | h | h
      · exact Or.inl h
      · exact Or.inr (Or.inl (F.writer_mono (by rw [hw, hpc]; intro h; cases h) h))
      · exact Or.inr (Or.inr (by rw [F.wt_ne (by omega)]; exact h))
    · intro _
      rw [F.wt_ne (by omega)]
      rcases key with h | h | h
      · exact Or.inl h
      · exact Or.inr (Or.inl h)
      · exact Or.inr (Or.inr (SetI2_SetL h))
    · intro _
      rw [F.wt_ne (by omega)]
      rcases key with h | h | h
      · exact Or.inl h
      · exact Or.inr (Or.inl h)
      · exact Or.inr (Or.inr (SetL_SetU (SetI2_SetL h)))
    · rw [F.wt_ne (by omega)]; exact W.lc

theorem winv_step_pWrite {s : State} (W : WInv s) {tid : Nat} {t : Thread} (ht : s.threads[tid]? = some t)
    (hpc : t.pc = .pWrite) : WInv (step s tid).1 := by
  have hlt := lt_of_getElem? ht
  have hw := wt_of_getElem? ht
  have h0 : 0 < tid := W.prod_pos (by rw [hw, hpc]; rfl)
  have hT := W.tok tid
  rw [hw, hpc] at hT
  rw [step_eq ht]; simp only [hpc]
  refine W.update (tid := tid) ⟨hlt, rfl, rfl, rfl, fun _ _ => rfl, fun _ _ => rfl⟩ fun F =>
    ⟨W.iu, W.il, ?_, W.flag, ?_, ?_, ?_, W.i4U, W.i4L, ?_⟩
  · exact TOk.moveP h0 rfl hT.2.1 hT.2.2
  · intro _; exact Or.inl rfl
  · intro _; exact Or.inl rfl
  · intro _; exact Or.inl rfl
  · rw [F.wt_ne (by omega)]; exact W.lc

/-- a thread inside the low-priority queue's `dSub` is the loop at `lDeqL` -/
theorem WInv.no_dSub_low {s : State} (W : WInv s) (hl : (wt s 0).pc ≠ .lDeqL) (j : Nat) :
    (thr s.low j).pc ≠ .dSub := by
  intro h
  have hT := W.tok j
  rw [h] at hT
  have hp : (wt s j).pc = .lDeqL := by
    have := hT.2.2
    revert this
    cases (wt s j).pc <;> simp [okL, EnqPc, DeqPc]
  have : j = 0 := W.loop_zero (by rw [hp]; rfl)
  subst this
  exact hl hp

theorem WInv.no_dSub_urgent {s : State} (W : WInv s) (hl : (wt s 0).pc ≠ .lDeqU) (j : Nat) :
    (thr s.urgent j).pc ≠ .dSub := by
  intro h
  have hT := W.tok j
  rw [h] at hT
  have hp : (wt s j).pc = .lDeqU := by
    have := hT.2.1
    revert this
    cases (wt s j).pc <;> simp [okU, EnqPc, DeqPc]
  have : j = 0 := W.loop_zero (by rw [hp]; rfl)
  subst this
  exact hl hp

theorem WInv.lag_low {s : State} (W : WInv s) (hl : (wt s 0).pc ≠ .lDeqL) (hlen : s.low.length = 0)
    (hq : s.low.absQ ≠ []) :
    ∃ j, 0 < j ∧ pend (wt s j).pc (thr s.urgent j).pc (thr s.low j).pc = true := by
  obtain ⟨j, hj, hp⟩ := Msq.lag_pending W.il hlen hq (W.no_dSub_low hl)
  have hT := W.tok j
  have hpc : (wt s j).pc = .pEnqL := by
    have := hT.2.2
    revert this hp
    cases (wt s j).pc <;> cases (thr s.low j).pc <;> simp [okL, EnqPc, DeqPc, PendPc]
  refine ⟨j, W.prod_pos (by rw [hpc]; rfl), ?_⟩
  rw [hpc]; exact hp

theorem WInv.lag_urgent {s : State} (W : WInv s) (hl : (wt s 0).pc ≠ .lDeqU) (hlen : s.urgent.length = 0)
    (hq : s.urgent.absQ ≠ []) :
    ∃ j, 0 < j ∧ pend (wt s j).pc (thr s.urgent j).pc (thr s.low j).pc = true := by
  obtain ⟨j, hj, hp⟩ := Msq.lag_pending W.iu hlen hq (W.no_dSub_urgent hl)
  have hT := W.tok j
  have hpc : (wt s j).pc = .pEnqU := by
    have := hT.2.1
    revert this hp
    cases (wt s j).pc <;> cases (thr s.urgent j).pc <;> simp [okU, EnqPc, DeqPc, PendPc]
  refine ⟨j, W.prod_pos (by rw [hpc]; rfl), ?_⟩
  rw [hpc]; exact hp

theorem pend_loop {p : Pc} {u l : Msq.Pc} (h : LoopPc p = true) : pend p u l = true → False := by
  cases p <;> simp [LoopPc] at h <;> simp [pend]

theorem winv_step_lStore {s : State} (W : WInv s) {tid : Nat} {t : Thread} (ht : s.threads[tid]? = some t)
    (hpc : t.pc = .lStore) : WInv (step s tid).1 := by
  have hw := wt_of_getElem? ht
  have h0 : tid = 0 := W.loop_zero (by rw [hw, hpc]; rfl)
  subst h0
  have hT := W.tok 0
  rw [hw, hpc] at hT
  rw [step_eq ht]; simp only [hpc]
  refine W.update (tid := 0) ⟨W.pos, rfl, rfl, rfl, fun _ _ => rfl, fun _ _ => rfl⟩ fun F =>
    ⟨W.iu, W.il, ?_, Or.inl rfl, ?_, ?_, ?_, W.i4U, W.i4L, ?_⟩
  · exact TOk.moveL rfl hT.2.1 hT.2.2
  · intro h; cases h
  · intro _; rw [F.wt_self]; exact Or.inr (Or.inr rfl)
  · intro _; rw [F.wt_self]; exact Or.inr (Or.inr rfl)
  · rw [F.wt_self]; intro h; cases h

theorem winv_step_lWrite {s : State} (W : WInv s) {tid : Nat} {t : Thread} (ht : s.threads[tid]? = some t)
    (hpc : t.pc = .lWrite) : WInv (step s tid).1 := by
  have hw := wt_of_getElem? ht
  have h0 : tid = 0 := W.loop_zero (by rw [hw, hpc]; rfl)
  subst h0
  have hT := W.tok 0
  rw [hw, hpc] at hT
  rw [step_eq ht]; simp only [hpc]
  refine W.update (tid := 0) ⟨W.pos, rfl, rfl, rfl, fun _ _ => rfl, fun _ _ => rfl⟩ fun F =>
    ⟨W.iu, W.il, ?_, W.flag, ?_, ?_, ?_, W.i4U, W.i4L, ?_⟩
  · exact TOk.moveL rfl hT.2.1 hT.2.2
  · intro _; exact Or.inl rfl
  · intro _; exact Or.inl rfl
  · intro _; exact Or.inl rfl
  · rw [F.wt_self]; intro h; cases h

theorem winv_step_lCas {s : State} (W : WInv s) {tid : Nat} {t : Thread} (ht : s.threads[tid]? = some t)
    (hpc : t.pc = .lCas) : WInv (step s tid).1 := by
  have hw := wt_of_getElem? ht
  have h0 : tid = 0 := W.loop_zero (by rw [hw, hpc]; rfl)
  subst h0
  have hT := W.tok 0
  rw [hw, hpc] at hT
  rw [step_eq ht]; simp only [hpc]
  split
  · refine W.update (tid := 0) ⟨W.pos, rfl, rfl, rfl, fun _ _ => rfl, fun _ _ => rfl⟩ fun F =>
      ⟨W.iu, W.il, ?_, Or.inr rfl, ?_, ?_, ?_, W.i4U, W.i4L, ?_⟩
    · exact TOk.moveL rfl hT.2.1 hT.2.2
    · intro _; rw [F.wt_self]; exact Or.inr (Or.inr rfl)
    · intro _; rw [F.wt_self]; exact Or.inr (Or.inr rfl)
    · intro _; rw [F.wt_self]; exact Or.inr (Or.inr rfl)
    · rw [F.wt_self]; intro h; cases h
  · rename_i hne
    have h1 : s.wakeupCall = 1 := by rcases W.flag with h | h; exact absurd h hne; exact h
    refine W.update (tid := 0) ⟨W.pos, rfl, rfl, rfl, fun _ _ => rfl, fun _ _ => rfl⟩ fun F =>
      ⟨W.iu, W.il, ?_, W.flag, ?_, ?_, ?_, W.i4U, W.i4L, ?_⟩
    · exact TOk.moveL rfl hT.2.1 hT.2.2
    · intro _
      rcases W.i2 h1 with h | h | h
      · exact Or.inl h
      · exact Or.inr (Or.inl (F.writer_mono (by rw [hw, hpc]; intro h; cases h) h))
      · rw [hw, hpc] at h; cases h
    · intro _
      rcases W.i2 h1 with h | ⟨j, hj⟩ | h
      · exact Or.inl h
      · have hp := W.writer_pending hj
        exact Or.inr (Or.inl (F.pending_other (by omega) hp.1 hp.2))
      · rw [hw, hpc] at h; cases h
    · intro _
      rcases W.i2 h1 with h | ⟨j, hj⟩ | h
      · exact Or.inl h
      · have hp := W.writer_pending hj
        exact Or.inr (Or.inl (F.pending_other (by omega) hp.1 hp.2))
      · rw [hw, hpc] at h; cases h
    · rw [F.wt_self]; intro h; cases h

theorem winv_step_lEmptyL {s : State} (W : WInv s) {tid : Nat} {t : Thread} (ht : s.threads[tid]? = some t)
    (hpc : t.pc = .lEmptyL) : WInv (step s tid).1 := by
  have hw := wt_of_getElem? ht
  have h0 : tid = 0 := W.loop_zero (by rw [hw, hpc]; rfl)
  subst h0
  have hT := W.tok 0
  rw [hw, hpc] at hT
  rw [step_eq ht]; simp only [hpc]
  split
  · refine W.update (tid := 0) ⟨W.pos, rfl, rfl, rfl, fun _ _ => rfl, fun _ _ => rfl⟩ fun F =>
      ⟨W.iu, W.il, ?_, W.flag, ?_, ?_, ?_, W.i4U, W.i4L, ?_⟩
    · exact TOk.moveL rfl hT.2.1 hT.2.2
    · intro h1
      rcases W.i2 h1 with h | h | h
      · exact Or.inl h
      · exact Or.inr (Or.inl (F.writer_mono (by rw [hw, hpc]; intro h; cases h) h))
      · rw [hw, hpc] at h; cases h
    · intro _; rw [F.wt_self]; exact Or.inr (Or.inr rfl)
    · intro _; rw [F.wt_self]; exact Or.inr (Or.inr rfl)
    · rw [F.wt_self]; intro h; cases h
  · rename_i hlen
    have hlen : s.low.length = 0 := by simpa using hlen
    refine W.update (tid := 0) ⟨W.pos, rfl, rfl, rfl, fun _ _ => rfl, fun _ _ => rfl⟩ fun F =>
      ⟨W.iu, W.il, ?_, W.flag, ?_, ?_, ?_, W.i4U, W.i4L, ?_⟩
    · exact TOk.moveL rfl hT.2.1 hT.2.2
    · intro h1
      rcases W.i2 h1 with h | h | h
      · exact Or.inl h
      · exact Or.inr (Or.inl (F.writer_mono (by rw [hw, hpc]; intro h; cases h) h))
      · rw [hw, hpc] at h; cases h
    · intro hq
      obtain ⟨j, hj0, hp⟩ := W.lag_low (by rw [hw, hpc]; intro h; cases h) hlen hq
      exact Or.inr (Or.inl (F.pending_other (by omega) hj0 hp))
    · intro _; rw [F.wt_self]; exact Or.inr (Or.inr rfl)
    · rw [F.wt_self]; intro h; cases h

theorem winv_step_lEmptyU {s : State} (W : WInv s) {tid : Nat} {t : Thread} (ht : s.threads[tid]? = some t)
    (hpc : t.pc = .lEmptyU) : WInv (step s tid).1 := by
  have hw := wt_of_getElem? ht
  have h0 : tid = 0 := W.loop_zero (by rw [hw, hpc]; rfl)
  subst h0
  have hT := W.tok 0
  rw [hw, hpc] at hT
  rw [step_eq ht]; simp only [hpc]
  split
  · refine W.update (tid := 0) ⟨W.pos, rfl, rfl, rfl, fun _ _ => rfl, fun _ _ => rfl⟩ fun F =>
      ⟨W.iu, W.il, ?_, W.flag, ?_, ?_, ?_, W.i4U, W.i4L, ?_⟩
    · exact TOk.moveL rfl hT.2.1 hT.2.2
    · intro h1
      rcases W.i2 h1 with h | h | h
      · exact Or.inl h
      · exact Or.inr (Or.inl (F.writer_mono (by rw [hw, hpc]; intro h; cases h) h))
      · rw [hw, hpc] at h; cases h
    · intro _; rw [F.wt_self]; exact Or.inr (Or.inr rfl)
    · intro _; rw [F.wt_self]; exact Or.inr (Or.inr rfl)
    · rw [F.wt_self]; intro h; cases h
  · rename_i hlen
    have hlen : s.urgent.length = 0 := by simpa using hlen
    refine W.update (tid := 0) ⟨W.pos, rfl, rfl, rfl, fun _ _ => rfl, fun _ _ => rfl⟩ fun F =>
      ⟨W.iu, W.il, ?_, W.flag, ?_, ?_, ?_, W.i4U, W.i4L, ?_⟩
    · exact TOk.moveL rfl hT.2.1 hT.2.2
    · intro h1
      rcases W.i2 h1 with h | h | h
      · exact Or.inl h
      · exact Or.inr (Or.inl (F.writer_mono (by rw [hw, hpc]; intro h; cases h) h))
      · rw [hw, hpc] at h; cases h
    · intro hq
      rcases W.i3L hq with h | h | h
      · exact Or.inl h
      · exact Or.inr (Or.inl (F.pending_mono (by rw [hw, hpc]; intro h; cases h) h))
      · rw [hw, hpc] at h; cases h
    · intro hq
      obtain ⟨j, hj0, hp⟩ := W.lag_urgent (by rw [hw, hpc]; intro h; cases h) hlen hq
      exact Or.inr (Or.inl (F.pending_other (by omega) hj0 hp))
    · rw [F.wt_self]; intro h; cases h

theorem winv_step_lWait {s : State} (W : WInv s) {tid : Nat} {t : Thread} (ht : s.threads[tid]? = some t)
    (hpc : t.pc = .lWait) : WInv (step s tid).1 := by
  have hw := wt_of_getElem? ht
  have h0 : tid = 0 := W.loop_zero (by rw [hw, hpc]; rfl)
  subst h0
  have hT := W.tok 0
  rw [hw, hpc] at hT
  rw [step_eq ht]; simp only [hpc]
  split
  · simp only [beginDeqU]
    have hidle : (thr s.urgent 0).pc = .idle := by simpa [okU] using hT.2.1
    have hlt : 0 < s.urgent.threads.length := by rw [W.lenU]; exact W.pos
    have hth := Msq.start_thr_deq hlt hidle
    refine W.update (tid := 0) ⟨W.pos, rfl, Msq.start_length _ _ _, rfl,
      fun j hj => Msq.start_thr_ne _ _ _ hj, fun _ _ => rfl⟩ fun F =>
      ⟨Msq.inv_start W.iu 0 .deq, W.il, ?_, W.flag, ?_, ?_, ?_, ?_, W.i4L, ?_⟩
    · refine TOk.moveL rfl ?_ hT.2.2
      show okU .lDeqU (thr (Msq.start s.urgent 0 .deq) 0).pc = true
      rw [hth]; rfl
    · intro _; rw [F.wt_self]; exact Or.inr (Or.inr rfl)
    · intro _; rw [F.wt_self]; exact Or.inr (Or.inr rfl)
    · intro _; rw [F.wt_self]; exact Or.inr (Or.inr rfl)
    · show (Msq.start s.urgent 0 .deq).deqLog = s.executedU ++ inflight (thr (Msq.start s.urgent 0 .deq) 0)
      rw [Msq.start_deqLog, hth, W.i4U]
      simp [inflight, hidle]
    · rw [F.wt_self]; intro _; rfl
  · split
    · exact ⟨W.iu, W.il, W.lenU, W.lenL, W.pos, W.tok, W.flag, W.i2, W.i3L, W.i3U, W.i4U, W.i4L, W.lc⟩
    · exact W

theorem winv_step_pEnqU {s : State} (W : WInv s) {tid : Nat} {t : Thread} (ht : s.threads[tid]? = some t)
    (hpc : t.pc = .pEnqU) : WInv (step s tid).1 := by
  have hlt := lt_of_getElem? ht
  have hw := wt_of_getElem? ht
  have h0 : 0 < tid := W.prod_pos (by rw [hw, hpc]; rfl)
  have hT := W.tok tid
  rw [hw, hpc] at hT
  have hltU : tid < s.urgent.threads.length := by rw [W.lenU]; exact hlt
  obtain ⟨hd, hr, ha, hp⟩ := Msq.step_enq hltU hT.2.1
  have I' := Msq.inv_step W.iu tid
  have hlen := Msq.step_length s.urgent tid
  have hne := fun j (hj : j ≠ tid) => Msq.step_thr_ne s.urgent tid hj
  rw [step_eq ht]; simp only [hpc]
  generalize Msq.step s.urgent tid = qr at *
  obtain ⟨q, r⟩ := qr
  simp only at *
  have i2 : ∀ {s' : State} {t' : Thread}, Frame s s' tid t' → t'.pc ≠ .lWait →
      s'.wakeupCall = s.wakeupCall → s'.edge = s.edge →
      (s'.wakeupCall = 1 → s'.edge = true ∨ (∃ j, (wt s' j).pc = .pWrite) ∨ SetI2 (wt s' 0).pc = true) := by
    intro s' t' F _ hwc he h1
    rw [hwc] at h1; rw [he]
    rcases W.i2 h1 with h | h | h
    · exact Or.inl h
    · exact Or.inr (Or.inl (F.writer_mono (by rw [hw, hpc]; intro h; cases h) h))
    · exact Or.inr (Or.inr (by rw [F.wt_ne (by omega)]; exact h))
  rcases hr with ⟨rfl, hr⟩ | ⟨rfl, hr⟩
  · simp only
    refine W.update (tid := tid) (t' := t) ⟨hlt, (Msq.set_eq_self ht).symm, hlen, rfl, hne, fun _ _ => rfl⟩
      fun F => ⟨I', W.il, ?_, W.flag, i2 F (by rw [hpc]; intro h; cases h) rfl rfl, ?_, ?_, ?_, W.i4L, ?_⟩
    · rw [hpc]; exact TOk.moveP h0 rfl hr hT.2.2
    · intro hq
      rw [F.wt_ne (by omega)]
      rcases W.i3L hq with h | h | h
      · exact Or.inl h
      · refine Or.inr (Or.inl (F.pending_mono ?_ h))
        rw [hw, hpc]; exact fun h => hp h rfl
      · exact Or.inr (Or.inr h)
    · intro hq
      rw [F.wt_ne (by omega)]
      rcases ha with ha | ⟨_, hc⟩
      · rw [show q.absQ = s.urgent.absQ from ha] at hq
        rcases W.i3U hq with h | h | h
        · exact Or.inl h
        · refine Or.inr (Or.inl (F.pending_mono ?_ h))
          rw [hw, hpc]; exact fun h => hp h rfl
        · exact Or.inr (Or.inr h)
      · refine Or.inr (Or.inl (F.pending_self h0 ?_))
        rw [hpc]; show PendPc (thr q tid).pc = true; rw [hc]; rfl
    · show q.deqLog = s.executedU ++ inflight (thr q 0)
      rw [hd, hne 0 (by omega)]; exact W.i4U
    · rw [F.wt_ne (by omega)]; exact W.lc
  · simp only
    refine W.update (tid := tid) ⟨hlt, rfl, hlen, rfl, hne, fun _ _ => rfl⟩
      fun F => ⟨I', W.il, ?_, W.flag, i2 F (by intro h; cases h) rfl rfl, ?_, ?_, ?_, W.i4L, ?_⟩
    · refine TOk.moveP h0 rfl ?_ hT.2.2
      show okU .pCas (thr q tid).pc = true; rw [hr]; rfl
    · intro hq
      rw [F.wt_ne (by omega)]
      rcases W.i3L hq with h | h | h
      · exact Or.inl h
      · exact Or.inr (Or.inl (F.pending_mono (fun _ => rfl) h))
      · exact Or.inr (Or.inr h)
    · intro hq
      rw [F.wt_ne (by omega)]
      exact Or.inr (Or.inl (F.pending_self h0 rfl))
    · show q.deqLog = s.executedU ++ inflight (thr q 0)
      rw [hd, hne 0 (by omega)]; exact W.i4U
    · rw [F.wt_ne (by omega)]; exact W.lc

theorem winv_step_pEnqL {s : State} (W : WInv s) {tid : Nat} {t : Thread} (ht : s.threads[tid]? = some t)
    (hpc : t.pc = .pEnqL) : WInv (step s tid).1 := by
  have hlt := lt_of_getElem? ht
  have hw := wt_of_getElem? ht
  have h0 : 0 < tid := W.prod_pos (by rw [hw, hpc]; rfl)
  have hT := W.tok tid
  rw [hw, hpc] at hT
  have hltL : tid < s.low.threads.length := by rw [W.lenL]; exact hlt
  obtain ⟨hd, hr, ha, hp⟩ := Msq.step_enq hltL hT.2.2
  have I' := Msq.inv_step W.il tid
  have hlen := Msq.step_length s.low tid
  have hne := fun j (hj : j ≠ tid) => Msq.step_thr_ne s.low tid hj
  rw [step_eq ht]; simp only [hpc]
  generalize Msq.step s.low tid = qr at *
  obtain ⟨q, r⟩ := qr
  simp only at *
  have i2 : ∀ {s' : State} {t' : Thread}, Frame s s' tid t' → t'.pc ≠ .lWait →
      s'.wakeupCall = s.wakeupCall → s'.edge = s.edge →
      (s'.wakeupCall = 1 → s'.edge = true ∨ (∃ j, (wt s' j).pc = .pWrite) ∨ SetI2 (wt s' 0).pc = true) := by
    intro s' t' F _ hwc he h1
    rw [hwc] at h1; rw [he]
    rcases W.i2 h1 with h | h | h
    · exact Or.inl h
    · exact Or.inr (Or.inl (F.writer_mono (by rw [hw, hpc]; intro h; cases h) h))
    · exact Or.inr (Or.inr (by rw [F.wt_ne (by omega)]; exact h))
  rcases hr with ⟨rfl, hr⟩ | ⟨rfl, hr⟩
  · simp only
    refine W.update (tid := tid) (t' := t) ⟨hlt, (Msq.set_eq_self ht).symm, rfl, hlen, fun _ _ => rfl, hne⟩
      fun F => ⟨W.iu, I', ?_, W.flag, i2 F (by rw [hpc]; intro h; cases h) rfl rfl, ?_, ?_, W.i4U, ?_, ?_⟩
    · rw [hpc]; exact TOk.moveP h0 rfl hT.2.1 hr
    · intro hq
      rw [F.wt_ne (by omega)]
      rcases ha with ha | ⟨_, hc⟩
      · rw [show q.absQ = s.low.absQ from ha] at hq
        rcases W.i3L hq with h | h | h
        · exact Or.inl h
        · refine Or.inr (Or.inl (F.pending_mono ?_ h))
          rw [hw, hpc]; exact fun h => hp h rfl
        · exact Or.inr (Or.inr h)
      · refine Or.inr (Or.inl (F.pending_self h0 ?_))
        rw [hpc]; show PendPc (thr q tid).pc = true; rw [hc]; rfl
    · intro hq
      rw [F.wt_ne (by omega)]
      rcases W.i3U hq with h | h | h
      · exact Or.inl h
      · refine Or.inr (Or.inl (F.pending_mono ?_ h))
        rw [hw, hpc]; exact fun h => hp h rfl
      · exact Or.inr (Or.inr h)
    · show q.deqLog = s.executedL ++ inflight (thr q 0)
      rw [hd, hne 0 (by omega)]; exact W.i4L
    · rw [F.wt_ne (by omega)]; exact W.lc
  · simp only
    refine W.update (tid := tid) ⟨hlt, rfl, rfl, hlen, fun _ _ => rfl, hne⟩
      fun F => ⟨W.iu, I', ?_, W.flag, i2 F (by intro h; cases h) rfl rfl, ?_, ?_, W.i4U, ?_, ?_⟩
    · refine TOk.moveP h0 rfl hT.2.1 ?_
      show okL .pCas (thr q tid).pc = true; rw [hr]; rfl
    · intro hq
      rw [F.wt_ne (by omega)]
      exact Or.inr (Or.inl (F.pending_self h0 rfl))
    · intro hq
      rw [F.wt_ne (by omega)]
      rcases W.i3U hq with h | h | h
      · exact Or.inl h
      · exact Or.inr (Or.inl (F.pending_mono (fun _ => rfl) h))
      · exact Or.inr (Or.inr h)
    · show q.deqLog = s.executedL ++ inflight (thr q 0)
      rw [hd, hne 0 (by omega)]; exact W.i4L
    · rw [F.wt_ne (by omega)]; exact W.lc

/-- a producer moves from a non-pending pc to the start of an Enqueue or to `pLen` -/
theorem winv_begin {s s' : State} (W : WInv s) {tid : Nat} {t' : Thread} (F : Frame s s' tid t')
    (h0 : 0 < tid) (hnp : pend (wt s tid).pc (thr s.urgent tid).pc (thr s.low tid).pc = false)
    (hnw : (wt s tid).pc ≠ .pWrite)
    (iu : Msq.Inv s'.urgent) (il : Msq.Inv s'.low)
    (hT : TOk tid t'.pc (Msq.thr s'.urgent tid).pc (Msq.thr s'.low tid).pc)
    (hwc : s'.wakeupCall = s.wakeupCall) (he : s'.edge = s.edge)
    (haU : s'.urgent.absQ = s.urgent.absQ) (haL : s'.low.absQ = s.low.absQ)
    (hdU : s'.urgent.deqLog = s.urgent.deqLog) (hdL : s'.low.deqLog = s.low.deqLog)
    (hxU : s'.executedU = s.executedU) (hxL : s'.executedL = s.executedL) : WInv s' := by
  have hm : pend (wt s tid).pc (thr s.urgent tid).pc (thr s.low tid).pc = true →
      pend t'.pc (thr s'.urgent tid).pc (thr s'.low tid).pc = true := by
    intro h; rw [hnp] at h; cases h
  refine W.update F fun _ => ⟨iu, il, hT, by rw [hwc]; exact W.flag, ?_, ?_, ?_, ?_, ?_, ?_⟩
  · intro h1
    rw [hwc] at h1; rw [he, F.wt_ne (by omega)]
    rcases W.i2 h1 with h | h | h
    · exact Or.inl h
    · exact Or.inr (Or.inl (F.writer_mono (fun h => absurd h hnw) h))
    · exact Or.inr (Or.inr h)
  · intro hq
    rw [haL] at hq; rw [he, F.wt_ne (by omega)]
    rcases W.i3L hq with h | h | h
    · exact Or.inl h
    · exact Or.inr (Or.inl (F.pending_mono hm h))
    · exact Or.inr (Or.inr h)
  · intro hq
    rw [haU] at hq; rw [he, F.wt_ne (by omega)]
    rcases W.i3U hq with h | h | h
    · exact Or.inl h
    · exact Or.inr (Or.inl (F.pending_mono hm h))
    · exact Or.inr (Or.inr h)
  · rw [hdU, hxU, F.neU 0 (by omega)]; exact W.i4U
  · rw [hdL, hxL, F.neL 0 (by omega)]; exact W.i4L
  · rw [F.wt_ne (by omega)]; exact W.lc

theorem winv_step_pLen {s : State} (W : WInv s) {tid : Nat} {t : Thread} (ht : s.threads[tid]? = some t)
    (hpc : t.pc = .pLen) : WInv (step s tid).1 := by
  have hlt := lt_of_getElem? ht
  have hw := wt_of_getElem? ht
  have h0 : 0 < tid := W.prod_pos (by rw [hw, hpc]; rfl)
  have hT := W.tok tid
  rw [hw, hpc] at hT
  have hltU : tid < s.urgent.threads.length := by rw [W.lenU]; exact hlt
  have hltL : tid < s.low.threads.length := by rw [W.lenL]; exact hlt
  have hiU : (thr s.urgent tid).pc = .idle := by simpa [okU] using hT.2.1
  have hiL : (thr s.low tid).pc = .idle := by simpa [okL] using hT.2.2
  rw [step_eq ht]; simp only [hpc]
  split
  · refine winv_begin W (tid := tid) ⟨hlt, rfl, rfl, Msq.start_length _ _ _, fun _ _ => rfl,
      fun j hj => Msq.start_thr_ne _ _ _ hj⟩ h0 (by rw [hw, hpc]; rfl) (by rw [hw, hpc]; intro h; cases h)
      W.iu (Msq.inv_start W.il tid (.enq t.task)) ?_ rfl rfl rfl (Msq.start_absQ _ _ _) rfl
      (Msq.start_deqLog _ _ _) rfl rfl
    refine TOk.moveP h0 rfl hT.2.1 ?_
    show okL .pEnqL (thr (Msq.start s.low tid (.enq t.task)) tid).pc = true
    rw [Msq.start_thr_enq _ hltL hiL]; rfl
  · refine winv_begin W (tid := tid) ⟨hlt, rfl, Msq.start_length _ _ _, rfl,
      fun j hj => Msq.start_thr_ne _ _ _ hj, fun _ _ => rfl⟩ h0 (by rw [hw, hpc]; rfl)
      (by rw [hw, hpc]; intro h; cases h)
      (Msq.inv_start W.iu tid (.enq t.task)) W.il ?_ rfl rfl (Msq.start_absQ _ _ _) rfl
      (Msq.start_deqLog _ _ _) rfl rfl rfl
    refine TOk.moveP h0 rfl ?_ hT.2.2
    show okU .pEnqU (thr (Msq.start s.urgent tid (.enq t.task)) tid).pc = true
    rw [Msq.start_thr_enq _ hltU hiU]; rfl

theorem winv_start {s : State} (W : WInv s) (tid task : Nat) (lowPrio : Bool) :
    WInv (start s tid task lowPrio) := by
  unfold start
  split
  · exact W
  · rename_i h0
    have h0 : 0 < tid := by omega
    split
    · exact W
    · rename_i t ht
      have hlt := lt_of_getElem? ht
      have hw := wt_of_getElem? ht
      split
      · exact W
      · rename_i hpc
        have hpc : t.pc = .idle := by simpa using hpc
        have hT := W.tok tid
        rw [hw, hpc] at hT
        have hltU : tid < s.urgent.threads.length := by rw [W.lenU]; exact hlt
        have hiU : (thr s.urgent tid).pc = .idle := by simpa [okU] using hT.2.1
        split
        · refine winv_begin W (tid := tid) ⟨hlt, rfl, rfl, rfl, fun _ _ => rfl, fun _ _ => rfl⟩ h0
            (by rw [hw, hpc]; rfl) (by rw [hw, hpc]; intro h; cases h)
            W.iu W.il ?_ rfl rfl rfl rfl rfl rfl rfl rfl
          exact TOk.moveP h0 rfl hT.2.1 hT.2.2
        · refine winv_begin W (tid := tid) ⟨hlt, rfl, Msq.start_length _ _ _, rfl,
            fun j hj => Msq.start_thr_ne _ _ _ hj, fun _ _ => rfl⟩ h0 (by rw [hw, hpc]; rfl)
            (by rw [hw, hpc]; intro h; cases h)
            (Msq.inv_start W.iu tid (.enq task)) W.il ?_ rfl rfl (Msq.start_absQ _ _ _) rfl
            (Msq.start_deqLog _ _ _) rfl rfl rfl
          refine TOk.moveP h0 rfl ?_ hT.2.2
          show okU .pEnqU (thr (Msq.start s.urgent tid (.enq task)) tid).pc = true
          rw [Msq.start_thr_enq _ hltU hiU]; rfl

theorem winv_step_lDeqU {s : State} (W : WInv s) {tid : Nat} {t : Thread} (ht : s.threads[tid]? = some t)
    (hpc : t.pc = .lDeqU) : WInv (step s tid).1 := by
  have hw := wt_of_getElem? ht
  have h0 : tid = 0 := W.loop_zero (by rw [hw, hpc]; rfl)
  subst h0
  have hT := W.tok 0
  rw [hw, hpc] at hT
  have hlt0 : 0 < s.urgent.threads.length := by rw [W.lenU]; exact W.pos
  have hltL : 0 < s.low.threads.length := by rw [W.lenL]; exact W.pos
  have hiL : (thr s.low 0).pc = .idle := by simpa [okL] using hT.2.2
  have hsum := Msq.step_deq W.iu hlt0 hT.2.1
  have I' := Msq.inv_step W.iu 0
  have hlen := Msq.step_length s.urgent 0
  have hne := fun j (hj : j ≠ 0) => Msq.step_thr_ne s.urgent 0 hj
  have hlc : t.lowCount = 0 := by have := W.lc (by rw [hw, hpc]); rwa [hw] at this
  rw [step_eq ht]; simp only [hpc]
  generalize Msq.step s.urgent 0 = qr at *
  obtain ⟨q, r⟩ := qr
  simp only at *
  have hltq : 0 < q.threads.length := by rw [hlen]; exact hlt0
  rcases hsum with ⟨hsub, rfl, hidle, hd, ha⟩ | ⟨hnsub, rfl, hsub', hd⟩ |
    ⟨hnsub, hnsub', hd, ha, ⟨rfl, hD'⟩ | ⟨rfl, hidle, _⟩⟩
  · simp only [beginDeqU]
    split
    · refine W.update (tid := 0) ⟨W.pos, rfl, hlen, rfl, hne, fun _ _ => rfl⟩ fun F =>
        ⟨I', W.il, ?_, W.flag, ?_, ?_, ?_, ?_, W.i4L, ?_⟩
      · refine TOk.moveL rfl ?_ hT.2.2
        show okU .lExit (thr q 0).pc = true; rw [hidle]; rfl
      · intro _; rw [F.wt_self]; exact Or.inr (Or.inr rfl)
      · intro _; rw [F.wt_self]; exact Or.inr (Or.inr rfl)
      · intro _; rw [F.wt_self]; exact Or.inr (Or.inr rfl)
      · show q.deqLog = (s.executedU ++ [(thr s.urgent 0).task]) ++ inflight (thr q 0)
        rw [hd, W.i4U]; simp [inflight, hsub, hidle]
      · rw [F.wt_self]; intro h; cases h
    · have hth := Msq.start_thr_deq hltq hidle
      refine W.update (tid := 0) ⟨W.pos, rfl, (Msq.start_length q 0 .deq).trans hlen, rfl,
        fun j hj => (Msq.start_thr_ne q 0 .deq hj).trans (hne j hj), fun _ _ => rfl⟩ fun F =>
        ⟨Msq.inv_start I' 0 .deq, W.il, ?_, W.flag, ?_, ?_, ?_, ?_, W.i4L, ?_⟩
      · refine TOk.moveL rfl ?_ hT.2.2
        show okU .lDeqU (thr (Msq.start q 0 .deq) 0).pc = true; rw [hth]; rfl
      · intro _; rw [F.wt_self]; exact Or.inr (Or.inr rfl)
      · intro _; rw [F.wt_self]; exact Or.inr (Or.inr rfl)
      · intro _; rw [F.wt_self]; exact Or.inr (Or.inr rfl)
      · show (Msq.start q 0 .deq).deqLog =
          (s.executedU ++ [(thr s.urgent 0).task]) ++ inflight (thr (Msq.start q 0 .deq) 0)
        rw [Msq.start_deqLog, hd, W.i4U, hth]; simp [inflight, hsub]
      · rw [F.wt_self]; intro _; exact hlc
  · simp only
    refine W.update (tid := 0) (t' := t) ⟨W.pos, (Msq.set_eq_self ht).symm, hlen, rfl, hne, fun _ _ => rfl⟩
      fun F => ⟨I', W.il, ?_, W.flag, ?_, ?_, ?_, ?_, W.i4L, ?_⟩
    · rw [hpc]; refine TOk.moveL rfl ?_ hT.2.2
      show okU .lDeqU (thr q 0).pc = true; rw [hsub']; rfl
    · intro _; rw [F.wt_self, hpc]; exact Or.inr (Or.inr rfl)
    · intro _; rw [F.wt_self, hpc]; exact Or.inr (Or.inr rfl)
    · intro _; rw [F.wt_self, hpc]; exact Or.inr (Or.inr rfl)
    · show q.deqLog = s.executedU ++ inflight (thr q 0)
      rw [hd, W.i4U]; simp [inflight, hnsub, hsub']
    · rw [F.wt_self]; intro _; exact hlc
  · simp only
    refine W.update (tid := 0) (t' := t) ⟨W.pos, (Msq.set_eq_self ht).symm, hlen, rfl, hne, fun _ _ => rfl⟩
      fun F => ⟨I', W.il, ?_, W.flag, ?_, ?_, ?_, ?_, W.i4L, ?_⟩
    · rw [hpc]; exact TOk.moveL rfl hD' hT.2.2
    · intro _; rw [F.wt_self, hpc]; exact Or.inr (Or.inr rfl)
    · intro _; rw [F.wt_self, hpc]; exact Or.inr (Or.inr rfl)
    · intro _; rw [F.wt_self, hpc]; exact Or.inr (Or.inr rfl)
    · show q.deqLog = s.executedU ++ inflight (thr q 0)
      rw [hd, W.i4U]; simp [inflight, hnsub, hnsub']
    · rw [F.wt_self]; intro _; exact hlc
  · simp only [beginDeqL]
    split
    · have hth := Msq.start_thr_deq hltL hiL
      refine W.update (tid := 0) ⟨W.pos, rfl, hlen, Msq.start_length _ _ _, hne,
        fun j hj => Msq.start_thr_ne _ _ _ hj⟩ fun F =>
        ⟨I', Msq.inv_start W.il 0 .deq, ?_, W.flag, ?_, ?_, ?_, ?_, ?_, ?_⟩
      · refine TOk.moveL rfl ?_ ?_
        · show okU .lDeqL (thr q 0).pc = true; rw [hidle]; rfl
        · show okL .lDeqL (thr (Msq.start s.low 0 .deq) 0).pc = true; rw [hth]; rfl
      · intro _; rw [F.wt_self]; exact Or.inr (Or.inr rfl)
      · intro _; rw [F.wt_self]; exact Or.inr (Or.inr rfl)
      · intro _; rw [F.wt_self]; exact Or.inr (Or.inr rfl)
      · show q.deqLog = s.executedU ++ inflight (thr q 0)
        rw [hd, W.i4U]; simp [inflight, hnsub, hidle]
      · show (Msq.start s.low 0 .deq).deqLog = s.executedL ++ inflight (thr (Msq.start s.low 0 .deq) 0)
        rw [Msq.start_deqLog, hth, W.i4L]; simp [inflight, hiL]
      · rw [F.wt_self]; intro h; cases h
    · refine W.update (tid := 0) ⟨W.pos, rfl, hlen, rfl, hne, fun _ _ => rfl⟩ fun F =>
        ⟨I', W.il, ?_, W.flag, ?_, ?_, ?_, ?_, W.i4L, ?_⟩
      · refine TOk.moveL rfl ?_ hT.2.2
        show okU .lStore (thr q 0).pc = true; rw [hidle]; rfl
      · intro _; rw [F.wt_self]; exact Or.inr (Or.inr rfl)
      · intro _; rw [F.wt_self]; exact Or.inr (Or.inr rfl)
      · intro _; rw [F.wt_self]; exact Or.inr (Or.inr rfl)
      · show q.deqLog = s.executedU ++ inflight (thr q 0)
        rw [hd, W.i4U]; simp [inflight, hnsub, hidle]
      · rw [F.wt_self]; intro h; cases h

theorem winv_step_lDeqL {s : State} (W : WInv s) {tid : Nat} {t : Thread} (ht : s.threads[tid]? = some t)
    (hpc : t.pc = .lDeqL) : WInv (step s tid).1 := by
  have hw := wt_of_getElem? ht
  have h0 : tid = 0 := W.loop_zero (by rw [hw, hpc]; rfl)
  subst h0
  have hT := W.tok 0
  rw [hw, hpc] at hT
  have hlt0 : 0 < s.low.threads.length := by rw [W.lenL]; exact W.pos
  have hsum := Msq.step_deq W.il hlt0 hT.2.2
  have I' := Msq.inv_step W.il 0
  have hlen := Msq.step_length s.low 0
  have hne := fun j (hj : j ≠ 0) => Msq.step_thr_ne s.low 0 hj
  rw [step_eq ht]; simp only [hpc]
  generalize Msq.step s.low 0 = qr at *
  obtain ⟨q, r⟩ := qr
  simp only at *
  have hltq : 0 < q.threads.length := by rw [hlen]; exact hlt0
  rcases hsum with ⟨hsub, rfl, hidle, hd, ha⟩ | ⟨hnsub, rfl, hsub', hd⟩ |
    ⟨hnsub, hnsub', hd, ha, ⟨rfl, hD'⟩ | ⟨rfl, hidle, _⟩⟩
  · simp only [beginDeqL]
    split
    · refine W.update (tid := 0) ⟨W.pos, rfl, rfl, hlen, fun _ _ => rfl, hne⟩ fun F =>
        ⟨W.iu, I', ?_, W.flag, ?_, ?_, ?_, W.i4U, ?_, ?_⟩
      · refine TOk.moveL rfl hT.2.1 ?_
        show okL .lExit (thr q 0).pc = true; rw [hidle]; rfl
      · intro _; rw [F.wt_self]; exact Or.inr (Or.inr rfl)
      · intro _; rw [F.wt_self]; exact Or.inr (Or.inr rfl)
      · intro _; rw [F.wt_self]; exact Or.inr (Or.inr rfl)
      · show q.deqLog = (s.executedL ++ [(thr s.low 0).task]) ++ inflight (thr q 0)
        rw [hd, W.i4L]; simp [inflight, hsub, hidle]
      · rw [F.wt_self]; intro h; cases h
    · split
      · have hth := Msq.start_thr_deq hltq hidle
        refine W.update (tid := 0) ⟨W.pos, rfl, rfl, (Msq.start_length q 0 .deq).trans hlen,
          fun _ _ => rfl, fun j hj => (Msq.start_thr_ne q 0 .deq hj).trans (hne j hj)⟩ fun F =>
          ⟨W.iu, Msq.inv_start I' 0 .deq, ?_, W.flag, ?_, ?_, ?_, W.i4U, ?_, ?_⟩
        · refine TOk.moveL rfl hT.2.1 ?_
          show okL .lDeqL (thr (Msq.start q 0 .deq) 0).pc = true; rw [hth]; rfl
        · intro _; rw [F.wt_self]; exact Or.inr (Or.inr rfl)
        · intro _; rw [F.wt_self]; exact Or.inr (Or.inr rfl)
        · intro _; rw [F.wt_self]; exact Or.inr (Or.inr rfl)
        · show (Msq.start q 0 .deq).deqLog =
            (s.executedL ++ [(thr s.low 0).task]) ++ inflight (thr (Msq.start q 0 .deq) 0)
          rw [Msq.start_deqLog, hd, W.i4L, hth]; simp [inflight, hsub]
        · rw [F.wt_self]; intro h; cases h
      · refine W.update (tid := 0) ⟨W.pos, rfl, rfl, hlen, fun _ _ => rfl, hne⟩ fun F =>
          ⟨W.iu, I', ?_, W.flag, ?_, ?_, ?_, W.i4U, ?_, ?_⟩
        · refine TOk.moveL rfl hT.2.1 ?_
          show okL .lStore (thr q 0).pc = true; rw [hidle]; rfl
        · intro _; rw [F.wt_self]; exact Or.inr (Or.inr rfl)
        · intro _; rw [F.wt_self]; exact Or.inr (Or.inr rfl)
        · intro _; rw [F.wt_self]; exact Or.inr (Or.inr rfl)
        · show q.deqLog = (s.executedL ++ [(thr s.low 0).task]) ++ inflight (thr q 0)
          rw [hd, W.i4L]; simp [inflight, hsub, hidle]
        · rw [F.wt_self]; intro h; cases h
  · simp only
    refine W.update (tid := 0) (t' := t) ⟨W.pos, (Msq.set_eq_self ht).symm, rfl, hlen, fun _ _ => rfl, hne⟩
      fun F => ⟨W.iu, I', ?_, W.flag, ?_, ?_, ?_, W.i4U, ?_, ?_⟩
    · rw [hpc]; refine TOk.moveL rfl hT.2.1 ?_
      show okL .lDeqL (thr q 0).pc = true; rw [hsub']; rfl
    · intro _; rw [F.wt_self, hpc]; exact Or.inr (Or.inr rfl)
    · intro _; rw [F.wt_self, hpc]; exact Or.inr (Or.inr rfl)
    · intro _; rw [F.wt_self, hpc]; exact Or.inr (Or.inr rfl)
    · show q.deqLog = s.executedL ++ inflight (thr q 0)
      rw [hd, W.i4L]; simp [inflight, hnsub, hsub']
    · rw [F.wt_self, hpc]; intro h; cases h
  · simp only
    refine W.update (tid := 0) (t' := t) ⟨W.pos, (Msq.set_eq_self ht).symm, rfl, hlen, fun _ _ => rfl, hne⟩
      fun F => ⟨W.iu, I', ?_, W.flag, ?_, ?_, ?_, W.i4U, ?_, ?_⟩
    · rw [hpc]; exact TOk.moveL rfl hT.2.1 hD'
    · intro _; rw [F.wt_self, hpc]; exact Or.inr (Or.inr rfl)
    · intro _; rw [F.wt_self, hpc]; exact Or.inr (Or.inr rfl)
    · intro _; rw [F.wt_self, hpc]; exact Or.inr (Or.inr rfl)
    · show q.deqLog = s.executedL ++ inflight (thr q 0)
      rw [hd, W.i4L]; simp [inflight, hnsub, hnsub']
    · rw [F.wt_self, hpc]; intro h; cases h
  · simp only
    refine W.update (tid := 0) ⟨W.pos, rfl, rfl, hlen, fun _ _ => rfl, hne⟩ fun F =>
      ⟨W.iu, I', ?_, W.flag, ?_, ?_, ?_, W.i4U, ?_, ?_⟩
    · refine TOk.moveL rfl hT.2.1 ?_
      show okL .lStore (thr q 0).pc = true; rw [hidle]; rfl
    · intro _; rw [F.wt_self]; exact Or.inr (Or.inr rfl)
    · intro _; rw [F.wt_self]; exact Or.inr (Or.inr rfl)
    · intro _; rw [F.wt_self]; exact Or.inr (Or.inr rfl)
    · show q.deqLog = s.executedL ++ inflight (thr q 0)
      rw [hd, W.i4L]; simp [inflight, hnsub, hidle]
    · rw [F.wt_self]; intro h; cases h

theorem winv_step {s : State} (W : WInv s) (tid : Nat) : WInv (step s tid).1 := by
  cases ht : s.threads[tid]? with
  | none => simp only [step, ht]; exact W
  | some t =>
    cases hpc : t.pc
    · rw [step_eq ht]; simp only [hpc]; exact W
    · exact winv_step_pLen W ht hpc
    · exact winv_step_pEnqU W ht hpc
    · exact winv_step_pEnqL W ht hpc
    · exact winv_step_pCas W ht hpc
    · exact winv_step_pWrite W ht hpc
    · exact winv_step_lWait W ht hpc
    · exact winv_step_lDeqU W ht hpc
    · exact winv_step_lDeqL W ht hpc
    · exact winv_step_lStore W ht hpc
    · exact winv_step_lEmptyL W ht hpc
    · exact winv_step_lEmptyU W ht hpc
    · exact winv_step_lCas W ht hpc
    · exact winv_step_lWrite W ht hpc
    · rw [step_eq ht]; simp only [hpc]; exact W

theorem winv_init (n : Nat) (th : Int) : WInv (init n th) := by
  have hw0 : wt (init n th) 0 = { pc := .lWait } := rfl
  have hwj : ∀ j, 0 < j → wt (init n th) j = {} := by
    intro j hj
    obtain ⟨k, rfl⟩ : ∃ k, j = k + 1 := ⟨j - 1, by omega⟩
    simp [wt, init, List.getD_eq_getElem?_getD, List.getElem?_replicate]
    split <;> rfl
  have hq : ∀ j, thr (Msq.init (n + 1)) j = {} := by
    intro j
    simp [thr, Msq.init, List.getD_eq_getElem?_getD, List.getElem?_replicate]
    split <;> rfl
  have hnp : ¬ Pending (init n th) := by
    rintro ⟨j, hj, hp⟩
    rw [hwj j hj] at hp
    simp [pend] at hp
  refine ⟨Msq.inv_init _, Msq.inv_init _, ?_, ?_, ?_, ?_, Or.inl rfl, ?_, ?_, ?_, ?_, ?_, ?_⟩
  · simp [init, Msq.init]
  · simp [init, Msq.init]
  · simp [init]
  · intro j
    show TOk j (wt (init n th) j).pc (thr (Msq.init (n + 1)) j).pc (thr (Msq.init (n + 1)) j).pc
    rw [hq j]
    by_cases hj : j = 0
    · subst hj; rw [hw0]; exact ⟨rfl, rfl, rfl⟩
    · rw [hwj j (by omega)]; exact ⟨by rw [if_neg hj]; rfl, rfl, rfl⟩
  · intro h; cases h
  · intro h; exact absurd rfl h
  · intro h; exact absurd rfl h
  · show ([] : List Nat) = [] ++ inflight (thr (Msq.init (n + 1)) 0)
    rw [hq]; rfl
  · show ([] : List Nat) = [] ++ inflight (thr (Msq.init (n + 1)) 0)
    rw [hq]; rfl
  · rw [hw0]; intro h; cases h

theorem winv_runEvs : ∀ (evs : List Ev) (s : State), WInv s → WInv (runEvs s evs) := by
  intro evs
  induction evs with
  | nil => intro s hs; exact hs
  | cons e es ih =>
    intro s hs
    simp only [runEvs]
    apply ih
    cases e with
    | start tid v l => exact winv_start hs tid v l
    | step tid => exact winv_step hs tid

theorem winv_reachable {s : State} (h : Reachable s) : WInv s := by
  obtain ⟨n, th, evs, rfl⟩ := h
  exact winv_runEvs evs _ (winv_init n th)

end Gnet.Proofs.Wake
