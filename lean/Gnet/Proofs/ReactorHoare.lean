/-
  A small forward Hoare logic for the reactor monad `M = StateT RState (Except String)`:
  inversion lemmas for successful runs, and the state invariant `Good` that is carried through
  the symbolic execution of `exec`.
-/
import Gnet.Spec.ReactorSpec
namespace Gnet.Reactor

/-- `m` started in `s` succeeds with value `a` and final state `s'` -/
abbrev Ok {α : Type} (m : M α) (s : RState) (a : α) (s' : RState) : Prop := m.run s = .ok (a, s')

theorem bind_inv {α β : Type} {m : M α} {f : α → M β} {s : RState} {r : β × RState}
    (h : (m >>= f).run s = .ok r) : ∃ a s1, m.run s = .ok (a, s1) ∧ (f a).run s1 = .ok r := by
  rw [StateT.run_bind] at h
  cases h1 : m.run s with
  | error e => rw [h1] at h; simp [bind, Except.bind] at h
  | ok p =>
    obtain ⟨a, s1⟩ := p
    rw [h1] at h
    exact ⟨a, s1, rfl, by simpa [bind, Except.bind] using h⟩

theorem pure_inv {α : Type} {a : α} {s : RState} {r : α × RState}
    (h : (pure a : M α).run s = .ok r) : r = (a, s) := by
  have h0 : (pure a : M α).run s = .ok (a, s) := rfl
  rw [h0] at h
  injection h with h
  exact h.symm

theorem throw_inv {α : Type} {e : String} {s : RState} {r : α × RState}
    (h : (throw e : M α).run s = .ok r) : False := by
  have h0 : (throw e : M α).run s = .error e := rfl
  rw [h0] at h
  cases h

theorem throw_bind_inv {α β : Type} {e : String} {f : α → M β} {s : RState} {r : β × RState}
    (h : ((throw e : M α) >>= f).run s = .ok r) : False := by
  obtain ⟨_, _, h1, _⟩ := bind_inv h
  exact throw_inv h1

theorem get_bind_inv {β : Type} {f : RState → M β} {s : RState} {r : β × RState}
    (h : ((get : M RState) >>= f).run s = .ok r) : (f s).run s = .ok r := h

theorem modify_bind_inv {β : Type} {g : RState → RState} {f : PUnit → M β} {s : RState} {r : β × RState}
    (h : ((modify g : M PUnit) >>= f).run s = .ok r) : (f ⟨⟩).run (g s) = .ok r := h

theorem modify_inv {g : RState → RState} {s : RState} {u : PUnit} {s1 : RState}
    (h : (modify g : M PUnit).run s = .ok (u, s1)) : s1 = g s := by
  have h0 : (modify g : M PUnit).run s = .ok (⟨⟩, g s) := rfl
  rw [h0] at h
  injection h with h
  injection h with _ h
  exact h.symm

theorem set_bind_inv {β : Type} {s0 : RState} {f : PUnit → M β} {s : RState} {r : β × RState}
    (h : ((set s0 : M PUnit) >>= f).run s = .ok r) : (f ⟨⟩).run s0 = .ok r := h

theorem mismatch_inv {α : Type} {w : String} {t : Tok} {s : RState} {r : α × RState}
    (h : (mismatch w t : M α).run s = .ok r) : False := throw_inv h

theorem mismatch_bind_inv {α β : Type} {w : String} {t : Tok} {f : α → M β} {s : RState} {r : β × RState}
    (h : ((mismatch w t : M α) >>= f).run s = .ok r) : False := throw_bind_inv h

/-! ### the primitives of the model (bind forms: what the continuation runs on) -/

theorem pop_bind_inv {β : Type} {f : Tok → M β} {s : RState} {r : β × RState}
    (h : (pop >>= f).run s = .ok r) :
    ∃ t rest, s.toks = t :: rest ∧ t.sane = true ∧ (f t).run { s with toks := rest } = .ok r := by
  unfold pop at h
  rw [bind_assoc] at h
  have h := get_bind_inv h
  split at h
  · exact (throw_bind_inv h).elim
  · rename_i t' rest heq
    dsimp only at h
    split at h
    · rw [bind_assoc] at h
      exact (throw_bind_inv h).elim
    · rename_i hs
      rw [bind_assoc] at h
      have h := set_bind_inv h
      rw [pure_bind] at h
      exact ⟨t', rest, heq, by simpa using hs, h⟩

theorem peekTok_bind_inv {β : Type} {f : Option Tok → M β} {s : RState} {r : β × RState}
    (h : (peekTok >>= f).run s = .ok r) : (f s.toks.head?).run s = .ok r := by
  unfold peekTok at h
  rw [bind_assoc] at h
  exact get_bind_inv h

theorem getConn_bind_inv {β : Type} {c : String} {f : Conn → M β} {s : RState} {r : β × RState}
    (h : (getConn c >>= f).run s = .ok r) :
    ∃ n x, s.conns.find? (·.1 == c) = some (n, x) ∧ (f x).run s = .ok r := by
  unfold getConn at h
  rw [bind_assoc] at h
  have h := get_bind_inv h
  split at h
  · rename_i n y heq
    exact ⟨n, y, heq, h⟩
  · exact (throw_bind_inv h).elim

theorem modConn_bind_inv {β : Type} {c : String} {g : Conn → Conn} {f : Unit → M β} {s : RState} {r : β × RState}
    (h : (modConn c g >>= f).run s = .ok r) :
    ∃ n x, s.conns.find? (·.1 == c) = some (n, x) ∧
      (f ()).run { s with conns := s.conns.map fun p => if p.1 == c then (c, g x) else p } = .ok r := by
  unfold modConn at h
  rw [bind_assoc] at h
  obtain ⟨n, x, hx, h⟩ := getConn_bind_inv h
  exact ⟨n, x, hx, h⟩

theorem noteSys_bind_inv {β : Type} {c : String} {f : Unit → M β} {s : RState} {r : β × RState}
    (h : (noteSys c >>= f).run s = .ok r) : ∃ l, (f ()).run { s with sysLog := l } = .ok r := by
  unfold noteSys at h
  rw [bind_assoc] at h
  obtain ⟨n, x, _, h⟩ := getConn_bind_inv h
  exact ⟨_, h⟩

theorem expectEnter_bind_inv {β : Type} {fn c : String} {f : String → M β} {s : RState} {r : β × RState}
    (h : (expectEnter fn c >>= f).run s = .ok r) :
    ∃ a t rest, s.toks = t :: rest ∧ (f a).run { s with toks := rest } = .ok r := by
  unfold expectEnter at h
  rw [bind_assoc] at h
  obtain ⟨t, rest, h2, _, h⟩ := pop_bind_inv h
  split at h
  · split at h
    · exact ⟨_, _, rest, h2, h⟩
    · exact (mismatch_bind_inv h).elim
  · exact (mismatch_bind_inv h).elim

theorem checkHop_bind_inv {β : Type} {op : String} {n : Int} {e : String} {d : List Nat} {f : Unit → M β}
    {s : RState} {r : β × RState} (h : (checkHop op n e d >>= f).run s = .ok r) :
    ∃ t rest, s.toks = t :: rest ∧ (f ()).run { s with toks := rest } = .ok r := by
  unfold checkHop at h
  rw [bind_assoc] at h
  obtain ⟨t, rest, h2, _, h⟩ := pop_bind_inv h
  split at h
  · split at h
    · exact ⟨_, rest, h2, h⟩
    · exact (throw_bind_inv h).elim
  · exact (mismatch_bind_inv h).elim

theorem popRes_bind_inv {β : Type} {op : String} {f : Int × String × List Nat → M β}
    {s : RState} {r : β × RState} (h : (popRes op >>= f).run s = .ok r) :
    ∃ a t rest, s.toks = t :: rest ∧ (f a).run { s with toks := rest } = .ok r := by
  unfold popRes at h
  rw [bind_assoc] at h
  obtain ⟨t, rest, h2, _, h⟩ := pop_bind_inv h
  split at h
  · exact ⟨_, _, rest, h2, h⟩
  · exact (mismatch_bind_inv h).elim

/-- turn a terminal statement into a bind with `pure` so that the bind forms apply -/
theorem to_bind {α : Type} {m : M α} {s : RState} {r : α × RState} (h : m.run s = .ok r) :
    (m >>= pure).run s = .ok r := by rw [bind_pure]; exact h

end Gnet.Reactor
