/-
  The abstract specification shared by C09, C10, C11: an unbounded FIFO queue of bytes,
  as a labelled transition relation. A state is the queue content (oldest first) and the
  position of the scripted reader's fresh-byte stream. An observation is what the caller
  of the operation gets back.
-/
import Gnet.Basic
namespace Gnet.Fifo

/-- operations of a byte FIFO (the union of what ring / linked list / elastic offer) -/
inductive Op (α : Type) where
  | write (p : List α)
  | writeByte (c : α)
  | read (n : Nat)            -- `Read(p)` with `len(p) = n`
  | readByte
  | peek (n : Int)            -- `n ≤ 0` = everything
  | discard (n : Int)
  | bytes
  | readFrom (script : List RStep)
  | writeTo (script : List WStep)
  | reset

/-- what the caller observes: a count, an error, bytes handed out -/
structure Obs (α : Type) where
  n : Nat
  err : Err
  data : List α

/-- bytes `pos, pos+1, …, pos+m-1` of the reader's stream -/
def fresh {α} (gen : Nat → α) (pos m : Nat) : List α := (List.range m).map (fun i => gen (pos + i))

/-- `Step gen (c, pos) op (c', pos') o`: the FIFO with content `c` may answer `op` with `o`
    and continue as `c'`. Only `read`-type operations remove bytes, only from the front;
    only `write`-type operations add bytes, only at the back; counts are exact. -/
inductive Step {α : Type} (gen : Nat → α) : List α × Nat → Op α → List α × Nat → Obs α → Prop where
  | write (c pos p) : Step gen (c, pos) (.write p) (c ++ p, pos) ⟨p.length, .nil, []⟩
  | writeByte (c pos b) : Step gen (c, pos) (.writeByte b) (c ++ [b], pos) ⟨1, .nil, []⟩
  | read (c pos n e) (he : e = .nil ∨ (c = [] ∧ 0 < n)) :
      Step gen (c, pos) (.read n) (c.drop n, pos) ⟨min n c.length, e, c.take n⟩
  | readByte (c pos e) (he : e = .nil ↔ c ≠ []) :
      Step gen (c, pos) .readByte (c.drop 1, pos) ⟨min 1 c.length, e, c.take 1⟩
  | peekAll (c pos n) (hn : n ≤ 0) : Step gen (c, pos) (.peek n) (c, pos) ⟨c.length, .nil, c⟩
  | peek (c pos n) (hn : 0 < n) :
      Step gen (c, pos) (.peek n) (c, pos) ⟨min n.toNat c.length, .nil, c.take n.toNat⟩
  | discard (c pos n) :
      Step gen (c, pos) (.discard n) (c.drop n.toNat, pos) ⟨min n.toNat c.length, .nil, []⟩
  | bytes (c pos) : Step gen (c, pos) .bytes (c, pos) ⟨c.length, .nil, c⟩
  | readFrom (c pos sc m e) (he : e ≠ .eof) :
      Step gen (c, pos) (.readFrom sc) (c ++ fresh gen pos m, pos + m) ⟨m, e, []⟩
  | writeTo (c pos sc m e) (hm : m ≤ c.length) (he : e = .nil → m = c.length) :
      Step gen (c, pos) (.writeTo sc) (c.drop m, pos) ⟨m, e, c.take m⟩
  | reset (c pos) : Step gen (c, pos) .reset ([], pos) ⟨0, .nil, []⟩

/-- a run of the specification: the list of observations some execution produces -/
inductive Run {α : Type} (gen : Nat → α) : List α × Nat → List (Op α) → List (Obs α) → List α × Nat → Prop where
  | nil (s) : Run gen s [] [] s
  | cons (s s' s'' op o ops os) : Step gen s op s' o → Run gen s' ops os s'' → Run gen s (op :: ops) (o :: os) s''

end Gnet.Fifo
