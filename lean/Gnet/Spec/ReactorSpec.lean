/-
  Invariants of the reactor model used by the property theorems of C01, C02, C04, C07, C08, C18.
  (Definitions only; fixed. Proofs live in Gnet/Proofs/Reactor*.lean.)
-/
import Gnet.Model.Reactor
namespace Gnet.Reactor

/-- C01: what the handler consumed, what sits in the inbound buffer and what is left of the
    latest read are, in this order, exactly the bytes the kernel delivered -/
def InvIn (s : RState) : Prop :=
  ∀ p ∈ s.conns, p.2.opened = true → p.2.consumed ++ p.2.inbound ++ p.2.buffer = p.2.delivered

/-- C02: what the kernel accepted followed by what is still buffered is exactly what the write
    operations accepted, in effect order -/
def InvOut (s : RState) : Prop :=
  ∀ p ∈ s.conns, p.2.opened = true → p.2.toKernel ++ p.2.outbound = p.2.accepted

/-- between rounds an opened connection is registered and the read buffer has been handed over -/
def Quiet (s : RState) : Prop :=
  ∀ p ∈ s.conns, p.2.opened = true → p.2.registered = true ∧ p.2.buffer = []

/-- C04: the callback word of a connection -/
def WordOK (w : List String) : Prop :=
  w = [] ∨ (∃ k, w = "open" :: List.replicate k "traffic") ∨ (∃ k, w = "open" :: List.replicate k "traffic" ++ ["close"])

/-- C04: lifecycle invariant: the word is well formed; a connection is `opened` exactly while its
    word is `open traffic*`; registered connections are opened; a closed descriptor belongs to
    a connection that is not opened -/
def InvLife (s : RState) : Prop :=
  ∀ p ∈ s.conns, WordOK p.2.word ∧
    (p.2.opened = true → ∃ k, p.2.word = "open" :: List.replicate k "traffic") ∧
    (p.2.registered = true → p.2.opened = true) ∧
    (p.2.fdOpen = false → p.2.opened = false ∧ p.2.registered = false)

/-- C07: every system call the framework issued on behalf of a connection found its
    descriptor open in the ledger (no I/O after close, no second close) -/
def InvFd (s : RState) : Prop := ∀ e ∈ s.sysLog, e.2 = true

/-- names are unique (one model connection per descriptor name) -/
def NamesNodup (s : RState) : Prop := (s.conns.map (·.1)).Nodup

def lookup (s : RState) (c : String) : Option Conn := (s.conns.find? (·.1 == c)).map (·.2)

end Gnet.Reactor
