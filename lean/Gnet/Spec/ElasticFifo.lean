/-
  Specification for C10: elastic.RingBuffer and elastic.Buffer are one FIFO byte queue.
  Errors are constrained only where the property speaks about them.
-/
import Gnet.Basic
import Gnet.Spec.Fifo
namespace Gnet.ElasticFifo
open Fifo (Obs fresh)

def maxInt32 : Nat := 2147483647

inductive Op (α : Type) where
  | write (p : List α)
  | writeByte (c : α)
  | writev (bs : List (List α))
  | read (n : Nat)
  | readByte
  | peek (n : Int)              -- ring wrapper: head/tail; mixed buffer: segments
  | discard (n : Int)
  | bytes
  | readFrom (script : List RStep)
  | writeTo (script : List WStep)
  | reset (maxStatic : Int)     -- `Reset()` / `Reset(maxStaticBytes)`
  | release                     -- `Done()` / `Release()`

inductive Step {α : Type} (gen : Nat → α) : List α × Nat → Op α → List α × Nat → Obs α → Prop where
  | write (c pos p) : Step gen (c, pos) (.write p) (c ++ p, pos) ⟨p.length, .nil, []⟩
  | writeByte (c pos b) : Step gen (c, pos) (.writeByte b) (c ++ [b], pos) ⟨1, .nil, []⟩
  | writev (c pos bs) : Step gen (c, pos) (.writev bs) (c ++ bs.flatten, pos) ⟨bs.flatten.length, .nil, []⟩
  | read (c pos n e) : Step gen (c, pos) (.read n) (c.drop n, pos) ⟨min n c.length, e, c.take n⟩
  | readByte (c pos e) (he : c ≠ [] → e = .nil) :
      Step gen (c, pos) .readByte (c.drop 1, pos) ⟨min 1 c.length, e, c.take 1⟩
  | peekAll (c pos) (n : Int) (d : List α) (hn : n ≤ 0 ∨ n = (maxInt32 : Int))
      (hd : d = c ∨ d = c.take maxInt32) :   -- identical below 2 GiB
      Step gen (c, pos) (.peek n) (c, pos) ⟨d.length, .nil, d⟩
  | peek (c pos) (n : Int) (hn : 0 < n) (hm : n ≠ (maxInt32 : Int)) (hle : n.toNat ≤ c.length) :
      Step gen (c, pos) (.peek n) (c, pos) ⟨n.toNat, .nil, c.take n.toNat⟩
  | peekShort (c pos) (n : Int) (e : Err) (d : List α) (hn : 0 < n) (hm : n ≠ (maxInt32 : Int))
      (hgt : c.length < n.toNat) (hd : d = [] ∨ d = c) :
      -- the mixed buffer refuses (short buffer, nothing); the ring wrapper returns what there is
      Step gen (c, pos) (.peek n) (c, pos) ⟨d.length, e, d⟩
  | discard (c pos) (n : Int) (e : Err) :   -- the property does not speak about Discard's error value
      Step gen (c, pos) (.discard n) (c.drop n.toNat, pos) ⟨min n.toNat c.length, e, []⟩
  | bytes (c pos) (d : List α) (hd : d = c ∨ d = c.take maxInt32) :   -- identical below 2 GiB
      Step gen (c, pos) .bytes (c, pos) ⟨d.length, .nil, d⟩
  | readFrom (c pos sc m e) (he : e ≠ .eof) :
      Step gen (c, pos) (.readFrom sc) (c ++ fresh gen pos m, pos + m) ⟨m, e, []⟩
  | writeTo (c pos sc m e) (hm : m ≤ c.length) (he : e = .nil → m = c.length) :
      Step gen (c, pos) (.writeTo sc) (c.drop m, pos) ⟨m, e, c.take m⟩
  | reset (c pos ms) : Step gen (c, pos) (.reset ms) ([], pos) ⟨0, .nil, []⟩
  | release (c pos) : Step gen (c, pos) .release ([], pos) ⟨0, .nil, []⟩

inductive Run {α : Type} (gen : Nat → α) : List α × Nat → List (Op α) → List (Obs α) → List α × Nat → Prop where
  | nil (s) : Run gen s [] [] s
  | cons (s s' s'' op o ops os) : Step gen s op s' o → Run gen s' ops os s'' → Run gen s (op :: ops) (o :: os) s''

end Gnet.ElasticFifo
