/-
  A concrete accepted history, recorded from the real event loop (unix socket, level-triggered): a connection is
  accepted and greeted (round 1 is the recorded trace word for word); then four bytes arrive which the handler leaves
  in the inbound buffer, and the connection is closed - by a Close() request or by a failing read. Rounds 2 and 3
  use the task entries of the loop (re-read task, close task) because the textual arguments of `processIO` and of
  handler hops do not reduce in the kernel. Used as the non-vacuity witness of the reactor theorems: the hypotheses of every theorem hold of
  these states and rounds, and the conclusions say something (bytes were delivered, consumed and sent).
-/
import Gnet.Model.Reactor
namespace Gnet.Reactor.Example
open Gnet.Reactor

def s0 : RState := { cfg := { isET := false, chunk := 0, rbc := 1024 } }

def round1 : List Tok := [
  .enter "accept" "L0" "", .sysAccept "L0" "c1" "nil", .enter "register0" "c1" "", .sysCtl "AddRead" "c1" "nil",
  .enter "open" "c1" "", .cb "OnOpen" "c1" 0 true "", .ret (some [104, 105]) 0, .sysWrite "c1" [104, 105] 2 "nil"]

/-- the loop reads again (the re-read task of the edge-triggered chunk mode): four bytes arrive, the handler leaves them -/
def round2 : List Tok := [
  .enter "read0" "c1" "", .enter "read" "c1" "", .sysRead "c1" 1024 4 "nil" [10, 11, 12, 13],
  .cb "OnTraffic" "c1" 4 true "", .ret none 0]

/-- an asynchronous Close() takes effect -/
def round3 : List Tok := [
  .enter "close" "c1" "true", .cb "OnClose" "c1" 0 true "", .ret none 0, .sysCtl "Delete" "c1" "nil", .sysClose "c1" "nil"]

/-- alternatively the next read fails: the connection is closed with an error (fault isolation) -/
def round3fault : List Tok := [
  .enter "read0" "c1" "", .enter "read" "c1" "", .sysRead "c1" 1024 (-1) "ECONNRESET" [],
  .enter "close" "c1" "false", .cb "OnClose" "c1" 0 false "", .ret none 0, .sysCtl "Delete" "c1" "nil", .sysClose "c1" "nil"]

/-- the states after one, two and three rounds (`none` if a round were rejected) -/
def after (n : Nat) : Option RState :=
  ([round1, round2, round3].take n).foldlM (fun s t => (acceptRound s t).toOption) s0

def afterFault : Option RState :=
  [round1, round2, round3fault].foldlM (fun s t => (acceptRound s t).toOption) s0

/-- whether c1's OnClose was given a nil error -/
def closeErrView (s : RState) : Option Bool := (s.conns.lookup "c1").map (·.closeErrNil)

/-- what the history shows of connection c1: [delivered, inbound, accepted, toKernel] -/
def bytesView (s : RState) : Option (List (List Nat)) :=
  (s.conns.lookup "c1").map fun x => [x.delivered, x.inbound, x.accepted, x.toKernel]

/-- the callbacks c1 has seen, and whether its descriptor is still open -/
def lifeView (s : RState) : Option (List String × Bool) :=
  (s.conns.lookup "c1").map fun x => (x.word, x.fdOpen)

end Gnet.Reactor.Example
