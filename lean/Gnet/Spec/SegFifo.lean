/-
  Specification of linkedlist.Buffer (C11): a FIFO byte queue whose observable content is a
  plain list; segment boundaries only show in how much `Pop` returns.
-/
import Gnet.Basic
import Gnet.Spec.Fifo
namespace Gnet.SegFifo

inductive Op (α : Type) where
  | pushBack (p : List α)
  | pushFront (p : List α)
  | append (p : List α)
  | pop
  | read (n : Nat)
  | peek (n : Int)
  | peekWithBytes (n : Int) (bs : List (List α))
  | discard (n : Int)
  | readFrom (script : List RStep)
  | writeTo (script : List WStep)
  | reset

def maxInt32 : Nat := 2147483647

/-- bytes a scripted reader delivers to `ReadFrom` when every call offers `minRead` bytes:
    everything up to and including the first step that carries an error or EOF -/
def rfCount (minRead : Nat) : List RStep → Nat
  | [] => 0
  | st :: rest => min st.k minRead + (if st.err = .nil then rfCount minRead rest else 0)

/-- the error `ReadFrom` reports: the first non-nil error, with EOF mapped to nil -/
def rfErr : List RStep → Err
  | [] => .nil
  | st :: rest => if st.err = .eof then .nil else if st.err ≠ .nil then st.err else rfErr rest

open Fifo (Obs fresh)

inductive Step {α : Type} (gen : Nat → α) (minRead : Nat) : List α × Nat → Op α → List α × Nat → Obs α → Prop where
  | pushBack (c pos p) : Step gen minRead (c, pos) (.pushBack p) (c ++ p, pos) ⟨0, .nil, []⟩
  | pushFront (c pos p) : Step gen minRead (c, pos) (.pushFront p) (p ++ c, pos) ⟨0, .nil, []⟩
  | append (c pos p) : Step gen minRead (c, pos) (.append p) (c ++ p, pos) ⟨0, .nil, []⟩
  | pop (c pos k) (hk : k ≤ c.length) (h0 : k = 0 ↔ c = []) :
      Step gen minRead (c, pos) .pop (c.drop k, pos) ⟨k, .nil, c.take k⟩
  | read (c pos n e) (he : e = .nil ∨ (c = [] ∧ 0 < n)) :
      Step gen minRead (c, pos) (.read n) (c.drop n, pos) ⟨min n c.length, e, c.take n⟩
  | peekAll (c pos) (n : Int) (hn : n ≤ 0 ∨ n = (maxInt32 : Int)) :
      Step gen minRead (c, pos) (.peek n) (c, pos) ⟨min maxInt32 c.length, .nil, c.take maxInt32⟩
  | peek (c pos) (n : Int) (hn : 0 < n) (hm : n ≠ (maxInt32 : Int)) (hle : n.toNat ≤ c.length) :
      Step gen minRead (c, pos) (.peek n) (c, pos) ⟨n.toNat, .nil, c.take n.toNat⟩
  | peekShort (c pos) (n : Int) (hn : 0 < n) (hm : n ≠ (maxInt32 : Int)) (hgt : c.length < n.toNat) :
      Step gen minRead (c, pos) (.peek n) (c, pos) ⟨0, .shortBuffer, []⟩
  | peekWithBytesAll (c pos) (n : Int) (bs) (hn : n ≤ 0 ∨ n = (maxInt32 : Int)) :
      Step gen minRead (c, pos) (.peekWithBytes n bs) (c, pos)
        ⟨min maxInt32 (bs.flatten ++ c).length, .nil, (bs.flatten ++ c).take maxInt32⟩
  | peekWithBytes (c pos) (n : Int) (bs) (hn : 0 < n) (hm : n ≠ (maxInt32 : Int)) (hle : n.toNat ≤ (bs.flatten ++ c).length) :
      Step gen minRead (c, pos) (.peekWithBytes n bs) (c, pos) ⟨n.toNat, .nil, (bs.flatten ++ c).take n.toNat⟩
  | peekWithBytesShort (c pos) (n : Int) (bs) (hn : 0 < n) (hm : n ≠ (maxInt32 : Int)) (hgt : (bs.flatten ++ c).length < n.toNat) :
      Step gen minRead (c, pos) (.peekWithBytes n bs) (c, pos) ⟨0, .shortBuffer, []⟩
  | discard (c pos) (n : Int) :
      Step gen minRead (c, pos) (.discard n) (c.drop n.toNat, pos) ⟨min n.toNat c.length, .nil, []⟩
  | readFrom (c pos sc) :
      Step gen minRead (c, pos) (.readFrom sc)
        (c ++ fresh gen pos (rfCount minRead sc), pos + rfCount minRead sc) ⟨rfCount minRead sc, rfErr sc, []⟩
  | writeTo (c pos sc m e) (hm : m ≤ c.length) (he : e = .nil → m = c.length) :
      Step gen minRead (c, pos) (.writeTo sc) (c.drop m, pos) ⟨m, e, c.take m⟩
  | reset (c pos) : Step gen minRead (c, pos) .reset ([], pos) ⟨0, .nil, []⟩

inductive Run {α : Type} (gen : Nat → α) (minRead : Nat) :
    List α × Nat → List (Op α) → List (Obs α) → List α × Nat → Prop where
  | nil (s) : Run gen minRead s [] [] s
  | cons (s s' s'' op o ops os) : Step gen minRead s op s' o → Run gen minRead s' ops os s'' →
      Run gen minRead s (op :: ops) (o :: os) s''

end Gnet.SegFifo
