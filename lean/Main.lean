import Gnet.Driver.Ring

def main (args : List String) : IO UInt32 := do
  match args with
  | ["ring"] => Gnet.Driver.RingD.main; return 0
  | _ => IO.eprintln "usage: gnetmodel <component>"; return 2
