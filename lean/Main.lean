import Gnet.Driver.Ring
import Gnet.Driver.LinkedList

def main (args : List String) : IO UInt32 := do
  match args with
  | ["ring"] => Gnet.Driver.RingD.main; return 0
  | ["linkedlist"] => Gnet.Driver.LLD.main; return 0
  | _ => IO.eprintln "usage: gnetmodel <component>"; return 2
