import Gnet.Driver.Ring
import Gnet.Driver.LinkedList
import Gnet.Driver.Elastic
import Gnet.Driver.Arith
import Gnet.Driver.Registry
import Gnet.Driver.LB
import Gnet.Driver.Pool
import Gnet.Driver.Msq
import Gnet.Driver.Wake
import Gnet.Driver.Sockaddr
import Gnet.Driver.Reactor
import Gnet.Driver.Engine

def main (args : List String) : IO UInt32 := do
  match args with
  | ["ring"] => Gnet.Driver.RingD.main; return 0
  | ["linkedlist"] => Gnet.Driver.LLD.main; return 0
  | ["elastic"] => Gnet.Driver.ElasticD.main; return 0
  | ["arith"] => Gnet.Driver.ArithD.main; return 0
  | ["registry"] => Gnet.Driver.RegD.main; return 0
  | ["lb"] => Gnet.Driver.LBD.main; return 0
  | ["pool"] => Gnet.Driver.PoolD.main; return 0
  | ["msq"] => Gnet.Driver.MsqD.main; return 0
  | ["wake"] => Gnet.Driver.WakeD.main; return 0
  | ["sockaddr"] => Gnet.Driver.SockaddrD.main; return 0
  | ["reactor"] => Gnet.Driver.ReactorD.main; return 0
  | ["engine"] => Gnet.Driver.EngineD.main; return 0
  | _ => IO.eprintln "usage: gnetmodel <component>"; return 2
