import Gnet.Basic
import Gnet.Basic.Bits
import Gnet.Gen.Facts
import Gnet.Gen.Arith
import Gnet.Model.Ring
