module gnetverif/harness

go 1.20

require github.com/panjf2000/gnet/v2 v2.0.0

replace github.com/panjf2000/gnet/v2 => /repo
