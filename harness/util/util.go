// Package util holds what every T-ops driver shares: hex, scripted readers/writers, the
// case/op stream, panic capture.
package util

import (
	"bufio"
	"errors"
	"fmt"
	"io"
	"math/rand"
	"os"
	"strconv"
	"strings"
	"sync"
)

const hexdigits = "0123456789abcdef"

// Hex renders bytes the way the Lean drivers do ("-" for empty).
func Hex(b []byte) string {
	if len(b) == 0 {
		return "-"
	}
	out := make([]byte, 0, len(b)*2)
	for _, c := range b {
		out = append(out, hexdigits[c>>4], hexdigits[c&15])
	}
	return string(out)
}

func UnHex(s string) []byte {
	if s == "-" {
		return nil
	}
	out := make([]byte, len(s)/2)
	for i := range out {
		v, err := strconv.ParseUint(s[2*i:2*i+2], 16, 8)
		if err != nil {
			panic("bad hex " + s)
		}
		out[i] = byte(v)
	}
	return out
}

func B(b bool) string {
	if b {
		return "1"
	}
	return "0"
}

// ErrOther are the tagged errors a script may inject.
type ErrOther struct{ Tag int }

func (e ErrOther) Error() string { return fmt.Sprintf("other%d", e.Tag) }

// ErrName canonicalises an error to the model's enum; known maps sentinel errors.
func ErrName(err error, known map[error]string) string {
	if err == nil {
		return "nil"
	}
	var o ErrOther
	if errors.As(err, &o) {
		return fmt.Sprintf("other%d", o.Tag)
	}
	switch err {
	case io.EOF:
		return "eof"
	case io.ErrShortBuffer:
		return "shortbuffer"
	case io.ErrShortWrite:
		return "shortwrite"
	}
	if n, ok := known[err]; ok {
		return n
	}
	return "unknown(" + err.Error() + ")"
}

func parseErr(s string) error {
	switch s {
	case "nil":
		return nil
	case "eof":
		return io.EOF
	case "shortwrite":
		return io.ErrShortWrite
	case "shortbuffer":
		return io.ErrShortBuffer
	}
	if strings.HasPrefix(s, "other") {
		t, _ := strconv.Atoi(s[5:])
		return ErrOther{t}
	}
	panic("bad err " + s)
}

type Step struct {
	K   int
	Err error
}

func ParseScript(s string) []Step {
	if s == "-" {
		return nil
	}
	var out []Step
	for _, it := range strings.Split(s, ",") {
		kv := strings.SplitN(it, ":", 2)
		k, err := strconv.Atoi(kv[0])
		if err != nil {
			panic("bad script " + s)
		}
		out = append(out, Step{k, parseErr(kv[1])})
	}
	return out
}

// Fresh is the byte a scripted reader delivers at stream position i.
func Fresh(i int) byte { return byte(i % 251) }

// Reader is a scripted io.Reader delivering fresh bytes from position *Pos.
type Reader struct {
	Script    []Step
	Pos       *int
	Delivered int
	Calls     int
	ZeroLen   int // calls with len(p)==0
}

func (r *Reader) Read(p []byte) (int, error) {
	r.Calls++
	if len(p) == 0 {
		r.ZeroLen++
	}
	st := Step{0, io.EOF}
	if len(r.Script) > 0 {
		st = r.Script[0]
		r.Script = r.Script[1:]
	}
	m := st.K
	if m > len(p) {
		m = len(p)
	}
	for i := 0; i < m; i++ {
		p[i] = Fresh(*r.Pos + i)
	}
	*r.Pos += m
	r.Delivered += m
	return m, st.Err
}

// Writer is a scripted io.Writer recording what it accepted.
type Writer struct {
	Script []Step
	Sink   []byte
}

func (w *Writer) Write(p []byte) (int, error) {
	if len(w.Script) == 0 {
		return 0, ErrOther{0}
	}
	st := w.Script[0]
	w.Script = w.Script[1:]
	m := st.K
	if m > len(p) {
		m = len(p)
	}
	w.Sink = append(w.Sink, p[:m]...)
	return m, st.Err
}

// Rng is the single PRNG of a run.
type Rng struct{ *rand.Rand }

func NewRng(seed int64) *Rng { return &Rng{rand.New(rand.NewSource(seed))} }

func (r *Rng) Pick(xs ...int) int { return xs[r.Intn(len(xs))] }

// Weighted picks an index according to weights.
func (r *Rng) Weighted(ws []int) int {
	t := 0
	for _, w := range ws {
		t += w
	}
	x := r.Intn(t)
	for i, w := range ws {
		if x < w {
			return i
		}
		x -= w
	}
	return len(ws) - 1
}

func ScriptString(st []Step) string {
	if len(st) == 0 {
		return "-"
	}
	parts := make([]string, len(st))
	for i, s := range st {
		parts[i] = fmt.Sprintf("%d:%s", s.K, ErrName(s.Err, nil))
	}
	return strings.Join(parts, ",")
}

// Exec runs the op stream on stdin. newCase resets the implementation; step executes one
// op (words) and returns the reply line. A panic inside step yields "panic" and the rest
// of the case is answered "dead" - exactly the convention of the Lean drivers.
// oracle failures are collected by the driver itself via Fail().
// Die ends the process after a failure that leaves the implementation in a state the driver cannot recover from (a
// goroutine of the implementation that never returns): the replies so far are flushed, the reply of the current op is
// printed, and the exit code 4 tells the runner to isolate the case (lib/vlib.py run_cases).
func Die(reply string) {
	if execOut != nil {
		fmt.Fprintln(execOut, reply)
		execOut.Flush()
	}
	os.Exit(4)
}

var execOut *bufio.Writer

func Exec(newCase func(id string), step func(ws []string) string) {
	in := bufio.NewReaderSize(os.Stdin, 1<<20)
	out := bufio.NewWriterSize(os.Stdout, 1<<20)
	execOut = out
	defer out.Flush()
	alive := false
	for {
		line, err := in.ReadString('\n')
		line = strings.TrimSpace(line)
		if line != "" {
			ws := strings.Fields(line)
			if ws[0] == "case" {
				if caseMark {
					fmt.Fprintf(os.Stderr, "@@CASE %s\n", ws[1])
				}
				fmt.Fprintln(out, line)
				CurCase = ws[1]
				CurOp = 0
				newCase(ws[1])
				alive = true
			} else if !alive {
				fmt.Fprintln(out, "dead")
			} else {
				CurOp++
				reply, panicked := safeStep(step, ws)
				if panicked {
					fmt.Fprintln(out, "panic")
					Fail("panic: " + reply)
					alive = false
				} else {
					fmt.Fprintln(out, reply)
				}
			}
		}
		if err != nil {
			break
		}
	}
}

func safeStep(step func([]string) string, ws []string) (reply string, panicked bool) {
	defer func() {
		if r := recover(); r != nil {
			reply = fmt.Sprint(r)
			panicked = true
		}
	}()
	return step(ws), false
}

var caseMark = os.Getenv("VERIF_CASE_MARK") == "1"
var failMu sync.Mutex

var (
	CurCase  string
	CurOp    int
	failFile *os.File
	Fails    int
)

// Fail records a failure of the property's own oracle on the implementation.
func Fail(msg string) {
	failMu.Lock()
	defer failMu.Unlock()
	Fails++
	if failFile == nil {
		name := os.Getenv("VERIF_ORACLE_OUT")
		if name == "" {
			name = "/dev/stderr"
		}
		f, err := os.OpenFile(name, os.O_CREATE|os.O_WRONLY|os.O_APPEND, 0o644)
		if err != nil {
			panic(err)
		}
		failFile = f
	}
	if len(msg) > 300 {
		msg = msg[:300] + "..."
	}
	fmt.Fprintf(failFile, "ORACLE-FAIL case=%s op=%d %s\n", CurCase, CurOp, msg)
}
