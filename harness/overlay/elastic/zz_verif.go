//go:build verif

package elastic

// Verification hooks (added at build time through `go build -overlay`, never committed to gnet).

// VerifRing reports whether the pooled ring is currently held and its capacity.
func (b *RingBuffer) VerifRing() (alloc bool, cap int) {
	if b.rb == nil {
		return false, 0
	}
	return true, b.rb.Cap()
}

// VerifParts exposes the parts of the mixed buffer.
func (mb *Buffer) VerifParts() (ralloc bool, rcap, rbuf, llen, lbuf int) {
	ralloc, rcap = mb.ringBuffer.VerifRing()
	return ralloc, rcap, mb.ringBuffer.Buffered(), mb.listBuffer.Len(), mb.listBuffer.Buffered()
}
