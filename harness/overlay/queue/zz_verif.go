//go:build verif

package queue

import "unsafe"

// VerifNewLockFreeQueue returns a queue together with its initial dummy node.
func VerifNewLockFreeQueue() (AsyncTaskQueue, unsafe.Pointer) {
	q := NewLockFreeQueue().(*lockFreeQueue)
	return q, q.head
}

// VerifDump walks the linked structure from the retained dummy node (all threads parked):
// position of head and tail in the chain, chain length, the length counter.
func VerifDump(aq AsyncTaskQueue, dummy unsafe.Pointer) (headPos, tailPos, chain int, length int32) {
	q := aq.(*lockFreeQueue)
	headPos, tailPos = -1, -1
	i := 0
	for p := dummy; p != nil; p = (*node)(p).next {
		if p == q.head {
			headPos = i
		}
		if p == q.tail {
			tailPos = i
		}
		i++
	}
	return headPos, tailPos, i, q.length
}

// VerifDummy returns the current head node of a quiescent, freshly created queue.
func VerifDummy(aq AsyncTaskQueue) unsafe.Pointer { return aq.(*lockFreeQueue).head }
