//go:build verif

package netpoll

import (
	"sync/atomic"

	"github.com/panjf2000/gnet/v2/pkg/queue"
)

// VerifQueues exposes the poller's two task queues (urgent, low priority).
func (p *Poller) VerifQueues() (urgent, low queue.AsyncTaskQueue) {
	return p.urgentAsyncTaskQueue, p.asyncTaskQueue
}

// VerifWakeupCall reads the wake-up flag.
func (p *Poller) VerifWakeupCall() int32 { return atomic.LoadInt32(&p.wakeupCall) }

// VerifSetThreshold sets the high-priority events threshold.
func (p *Poller) VerifSetThreshold(n int32) { p.highPriorityEventsThreshold = n }
