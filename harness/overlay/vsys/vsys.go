// Package verifsys is overlaid into the gnet module at build time (never committed).
// Pass-through wrappers for the system calls of the I/O path: every call is logged with its
// arguments and result, and a driver may, for the next call of a kind on a descriptor,
// shorten the transfer, answer EAGAIN or inject an errno instead of calling the kernel.
package verifsys

import (
	"fmt"
	"runtime"
	"strings"
	"sync"

	"golang.org/x/sys/unix"

	gio "github.com/panjf2000/gnet/v2/pkg/io"
	"github.com/panjf2000/gnet/v2/pkg/socket"
)

// Directive tells a wrapper what to do instead of (or in addition to) the real call.
type Directive struct {
	Kind  string // "" = pass through | "short" (limit the transfer to N bytes) | "errno"
	N     int
	Errno unix.Errno
}

var (
	mu sync.Mutex
	// Log receives one record per call; nil = logging off.
	Log func(rec string)
	// Next returns the directive for this call (and consumes it); nil = pass through.
	Next func(call string, fd int) Directive
)

func logf(format string, a ...any) {
	mu.Lock()
	l := Log
	mu.Unlock()
	if l != nil {
		l(fmt.Sprintf(format, a...))
	}
}

func next(call string, fd int) Directive {
	mu.Lock()
	n := Next
	mu.Unlock()
	if n == nil {
		return Directive{}
	}
	return n(call, fd)
}

// Set installs the logger and the directive source.
func Set(l func(string), n func(string, int) Directive) {
	mu.Lock()
	Log, Next = l, n
	mu.Unlock()
}

const hexd = "0123456789abcdef"

func hex(b []byte) string {
	if len(b) == 0 {
		return "-"
	}
	out := make([]byte, 0, 2*len(b))
	for _, c := range b {
		out = append(out, hexd[c>>4], hexd[c&15])
	}
	return string(out)
}

func errName(err error) string {
	if err == nil {
		return "nil"
	}
	if e, ok := err.(unix.Errno); ok {
		return unix.ErrnoName(e)
	}
	return "E?" + err.Error()
}

func Read(fd int, p []byte) (n int, err error) {
	d := next("read", fd)
	switch d.Kind {
	case "errno":
		n, err = -1, d.Errno
	case "short":
		q := p
		if d.N < len(q) {
			q = q[:d.N]
		}
		n, err = unix.Read(fd, q)
	default:
		n, err = unix.Read(fd, p)
	}
	data := "-"
	if n > 0 {
		data = hex(p[:n])
	}
	logf("sys read fd=%d len=%d -> n=%d err=%s data=%s", fd, len(p), n, errName(err), data)
	return
}

func Write(fd int, p []byte) (n int, err error) {
	d := next("write", fd)
	switch d.Kind {
	case "errno":
		n, err = -1, d.Errno
	case "short":
		q := p
		if d.N < len(q) {
			q = q[:d.N]
		}
		n, err = unix.Write(fd, q)
	default:
		n, err = unix.Write(fd, p)
	}
	logf("sys write fd=%d data=%s -> n=%d err=%s", fd, hex(p), n, errName(err))
	return
}

func flat(iov [][]byte) []byte {
	var out []byte
	for _, b := range iov {
		out = append(out, b...)
	}
	return out
}

func Writev(fd int, iov [][]byte) (n int, err error) {
	d := next("writev", fd)
	switch d.Kind {
	case "errno":
		n, err = -1, d.Errno
	case "short": // hand the kernel only the first N bytes
		var q [][]byte
		left := d.N
		for _, b := range iov {
			if left <= 0 {
				break
			}
			if len(b) > left {
				b = b[:left]
			}
			q = append(q, b)
			left -= len(b)
		}
		if len(q) == 0 {
			n, err = 0, nil
		} else {
			n, err = gio.Writev(fd, q)
		}
	default:
		n, err = gio.Writev(fd, iov)
	}
	logf("sys writev fd=%d segs=%d data=%s -> n=%d err=%s", fd, len(iov), hex(flat(iov)), n, errName(err))
	return
}

func Close(fd int) (err error) {
	d := next("close", fd)
	if d.Kind == "errno" {
		// the descriptor is still released (as Linux does on EINTR/EIO); the error is reported
		_ = unix.Close(fd)
		err = d.Errno
	} else {
		err = unix.Close(fd)
	}
	logf("sys close fd=%d -> err=%s", fd, errName(err))
	return
}

func saStr(sa unix.Sockaddr) string {
	switch x := sa.(type) {
	case *unix.SockaddrInet4:
		return fmt.Sprintf("inet4:%s:%d", hex(x.Addr[:]), x.Port)
	case *unix.SockaddrInet6:
		return fmt.Sprintf("inet6:%s:%d:%d", hex(x.Addr[:]), x.Port, x.ZoneId)
	case *unix.SockaddrUnix:
		return "unix:" + hex([]byte(x.Name))
	}
	return "nil"
}

func Recvfrom(fd int, p []byte, flags int) (n int, from unix.Sockaddr, err error) {
	d := next("recvfrom", fd)
	if d.Kind == "errno" {
		n, err = -1, d.Errno
	} else {
		n, from, err = unix.Recvfrom(fd, p, flags)
	}
	data := "-"
	if n > 0 {
		data = hex(p[:n])
	}
	logf("sys recvfrom fd=%d len=%d -> n=%d err=%s from=%s data=%s", fd, len(p), n, errName(err), saStr(from), data)
	return
}

func Sendto(fd int, p []byte, flags int, to unix.Sockaddr) (err error) {
	d := next("sendto", fd)
	if d.Kind == "errno" {
		err = d.Errno
	} else {
		err = unix.Sendto(fd, p, flags, to)
	}
	logf("sys sendto fd=%d data=%s to=%s -> err=%s", fd, hex(p), saStr(to), errName(err))
	return
}

func Send(fd int, p []byte, flags int) (err error) {
	d := next("send", fd)
	if d.Kind == "errno" {
		err = d.Errno
	} else {
		err = unix.Send(fd, p, flags)
	}
	logf("sys send fd=%d data=%s -> err=%s", fd, hex(p), errName(err))
	return
}

func Accept(fd int) (nfd int, sa unix.Sockaddr, err error) {
	d := next("accept", fd)
	if d.Kind == "errno" {
		nfd, err = -1, d.Errno
	} else {
		nfd, sa, err = socket.Accept(fd)
	}
	logf("sys accept fd=%d -> nfd=%d err=%s from=%s", fd, nfd, errName(err), saStr(sa))
	return
}

func Dup(fd int) (nfd int, err error) {
	d := next("dup", fd)
	if d.Kind == "errno" {
		nfd, err = -1, d.Errno
	} else {
		nfd, err = socket.Dup(fd)
	}
	logf("sys dup fd=%d -> nfd=%d err=%s", fd, nfd, errName(err))
	return
}

// EpollCtlHook wraps any epoll_ctl call of the poller: method is the enclosing poller method
// (AddRead, AddReadWrite, AddWrite, ModRead, ModReadWrite, Delete), do() performs the call.
func EpollCtlHook(method string, fd int, do func() error) (err error) {
	d := next("epoll_ctl_"+method, fd)
	if d.Kind == "errno" {
		err = d.Errno
	} else {
		err = do()
	}
	logf("sys epoll_ctl %s fd=%d -> err=%s", method, fd, errName(err))
	return
}

// Enter logs the entry of an instrumented loop-side function with the given values.
// Ptr renders the identity of a connection object for entry logs
func Ptr(v any) string { return fmt.Sprintf("p=%p", v) }

// LogGoid makes Enter append the id of the calling goroutine (" g=<id>"): the hand-over accounting tells the acceptor's
// hand-overs from enrolments by it
var LogGoid bool

func goid() string {
	var buf [64]byte
	n := runtime.Stack(buf[:], false)
	f := strings.Fields(string(buf[:n]))
	if len(f) > 1 {
		return f[1]
	}
	return "?"
}

func Enter(fn string, vals ...any) {
	s := "enter " + fn
	for _, v := range vals {
		s += fmt.Sprintf(" %v", v)
	}
	if LogGoid {
		s += " g=" + goid()
	}
	logf("%s", s)
}
