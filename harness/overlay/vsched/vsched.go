// Package verifsched is overlaid into the gnet module at build time (never committed).
// It provides drop-in wrappers for the atomic operations and system calls of the lock-free
// queue and the pollers. Under an active scheduler every wrapper first parks the calling
// logical thread until the driver grants its next step, so that a run is deterministic at
// the granularity of single atomic operations. Goroutines that are not registered, and
// everything when no scheduler is active, run freely.
package verifsched

import (
	"bytes"
	"runtime"
	"strconv"
	"sync"
	"sync/atomic"
	"unsafe"

	"golang.org/x/sys/unix"
)

// Event is what a logical thread reports to the driver.
type Event struct {
	Tid     int
	Kind    string // "parked" | "blocked" | "done"
	Site    string
	Payload string
}

type thread struct {
	id    int
	grant chan struct{}
}

var (
	active  int32
	mu      sync.Mutex
	byGoid  = map[int64]*thread{}
	Events  = make(chan Event, 1024)
	Blocked = map[int]bool{} // threads whose last probe of epoll_wait(-1) found nothing
)

func goid() int64 {
	var buf [64]byte
	n := runtime.Stack(buf[:], false)
	// "goroutine 123 ["
	f := bytes.Fields(buf[:n])
	id, _ := strconv.ParseInt(string(f[1]), 10, 64)
	return id
}

// Activate switches the cooperative scheduler on or off.
func Activate(on bool) {
	if on {
		atomic.StoreInt32(&active, 1)
	} else {
		atomic.StoreInt32(&active, 0)
	}
}

// Register makes the calling goroutine the logical thread id and returns its grant channel.
func Register(id int) chan struct{} {
	t := &thread{id: id, grant: make(chan struct{})}
	mu.Lock()
	byGoid[goid()] = t
	mu.Unlock()
	return t.grant
}

// Unregister lets the calling goroutine run freely again.
func Unregister() {
	mu.Lock()
	delete(byGoid, goid())
	mu.Unlock()
}

func me() *thread {
	if atomic.LoadInt32(&active) == 0 {
		return nil
	}
	mu.Lock()
	t := byGoid[goid()]
	mu.Unlock()
	return t
}

// Yield parks the calling logical thread before the atomic action named site.
func Yield(site string) {
	t := me()
	if t == nil {
		return
	}
	Events <- Event{Tid: t.id, Kind: "parked", Site: site}
	<-t.grant
}

// Done reports the completion of the thread's current operation.
func Done(payload string) {
	t := me()
	if t == nil {
		return
	}
	Events <- Event{Tid: t.id, Kind: "done", Payload: payload}
}

// ---- sync/atomic

func LoadPointer(addr *unsafe.Pointer) unsafe.Pointer {
	Yield("LoadPointer")
	return atomic.LoadPointer(addr)
}

func CompareAndSwapPointer(addr *unsafe.Pointer, old, new unsafe.Pointer) bool {
	Yield("CompareAndSwapPointer")
	return atomic.CompareAndSwapPointer(addr, old, new)
}

func AddInt32(addr *int32, delta int32) int32 {
	Yield("AddInt32")
	return atomic.AddInt32(addr, delta)
}

func LoadInt32(addr *int32) int32 {
	Yield("LoadInt32")
	return atomic.LoadInt32(addr)
}

func StoreInt32(addr *int32, v int32) {
	Yield("StoreInt32")
	atomic.StoreInt32(addr, v)
}

func CompareAndSwapInt32(addr *int32, old, new int32) bool {
	Yield("CompareAndSwapInt32")
	return atomic.CompareAndSwapInt32(addr, old, new)
}

// ---- system calls of the wake-up protocol

func Write(fd int, p []byte) (int, error) {
	Yield("write")
	return unix.Write(fd, p)
}

func Read(fd int, p []byte) (int, error) {
	Yield("read")
	return unix.Read(fd, p)
}

// EpollWaitHook is EpollWait for any epoll_wait function: probe(msec) performs the system call.
func EpollWaitHook(msec int, probe func(msec int) (int, error)) (int, error) {
	t := me()
	if t == nil {
		return probe(msec)
	}
	Yield("epoll_wait")
	for {
		if me() == nil { // the scheduler was switched off: behave like the real call
			return probe(msec)
		}
		n, err := probe(0)
		if n != 0 || err != nil || msec == 0 {
			return n, err
		}
		Events <- Event{Tid: t.id, Kind: "blocked", Site: "epoll_wait"}
		<-t.grant
	}
}

// EpollWait: a wait without timeout is performed as a sequence of non-blocking probes; a
// probe that finds nothing reports the thread as blocked and parks it until the driver
// grants it again (which it only does after another thread wrote the eventfd).
func EpollWait(epfd int, events []unix.EpollEvent, msec int) (int, error) {
	t := me()
	if t == nil {
		return unix.EpollWait(epfd, events, msec)
	}
	Yield("epoll_wait")
	for {
		n, err := unix.EpollWait(epfd, events, 0)
		if n != 0 || err != nil || msec == 0 {
			return n, err
		}
		Events <- Event{Tid: t.id, Kind: "blocked", Site: "epoll_wait"}
		<-t.grant
	}
}
