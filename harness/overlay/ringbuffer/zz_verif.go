//go:build verif

package ringbuffer

import "github.com/panjf2000/gnet/v2/pkg/buffer/ring"

// VerifReset empties the built-in pool and its calibration state.
func VerifReset() {
	builtinPool = Pool{}
}

// VerifSeed puts one empty ring of the given capacity into the emptied pool.
func VerifSeed(capacity int) {
	builtinPool.pool.Put(ring.New(capacity))
}

// VerifIndex exposes the calibration bucket function.
func VerifIndex(n int) int { return index(n) }
