//go:build verif

package byteslice

// VerifIndex exposes the size-class function.
func VerifIndex(n uint32) uint32 { return index(n) }

// VerifReset empties the built-in pool.
func VerifReset() { builtinPool = Pool{} }
