//go:build verif

package gnet

import (
	"net"
	"reflect"
	"unsafe"

	"github.com/panjf2000/gnet/v2/internal/gfd"
)

// Verification exports (added at build time through `go build -overlay`, never committed).

// VerifDetermineEventLoops runs determineEventLoops on the given options.
func VerifDetermineEventLoops(multicore bool, numEventLoop int) int {
	return determineEventLoops(&Options{Multicore: multicore, NumEventLoop: numEventLoop})
}

// VerifNormServer runs the option normalisation of createListeners (no listeners).
func VerifNormServer(rbc, wbc, chunk int, et bool) (r, w, c int, e bool, err error) {
	_, o, err := createListeners(nil, WithReadBufferCap(rbc), WithWriteBufferCap(wbc),
		WithEdgeTriggeredIOChunk(chunk), WithEdgeTriggeredIO(et))
	if err != nil {
		return 0, 0, 0, false, err
	}
	return o.ReadBufferCap, o.WriteBufferCap, o.EdgeTriggeredIOChunk, o.EdgeTriggeredIO, nil
}

// VerifNormClient runs the option normalisation of NewClient.
func VerifNormClient(rbc, wbc, chunk int, et bool) (r, w, c int, e bool, err error) {
	cli, err := NewClient(&BuiltinEventEngine{}, WithReadBufferCap(rbc), WithWriteBufferCap(wbc),
		WithEdgeTriggeredIOChunk(chunk), WithEdgeTriggeredIO(et))
	if err != nil {
		return 0, 0, 0, false, err
	}
	o := cli.opts
	return o.ReadBufferCap, o.WriteBufferCap, o.EdgeTriggeredIOChunk, o.EdgeTriggeredIO, nil
}

// VerifParseProtoAddr exposes parseProtoAddr.
func VerifParseProtoAddr(s string) (string, string, error) { return parseProtoAddr(s) }

// ---- connection registry (conn_map.go / conn_matrix.go)

// VerifRegistry wraps a connMatrix with fake connections identified by small integers.
type VerifRegistry struct {
	cm    connMatrix
	conns map[int]*conn
	ids   map[*conn]int
}

func NewVerifRegistry() *VerifRegistry {
	r := &VerifRegistry{conns: map[int]*conn{}, ids: map[*conn]int{}}
	r.cm.init()
	return r
}

// NewConn creates the fake connection object `id` with descriptor fd.
func (r *VerifRegistry) NewConn(id, fd int) {
	c := &conn{fd: fd}
	r.conns[id] = c
	r.ids[c] = id
}
func (r *VerifRegistry) Add(id, elIndex int) { r.cm.addConn(r.conns[id], elIndex) }
func (r *VerifRegistry) Del(id int)          { r.cm.delConn(r.conns[id]) }
func (r *VerifRegistry) Get(fd int) int {
	c := r.cm.getConn(fd)
	if c == nil {
		return -1
	}
	return r.ids[c]
}
func (r *VerifRegistry) Count() int { return int(r.cm.loadCount()) }

// Iterate visits the live connections; when del is set each visited one is removed.
func (r *VerifRegistry) Iterate(del bool, stopAfter int) []int {
	var out []int
	r.cm.iterate(func(c *conn) bool {
		out = append(out, r.ids[c])
		if del {
			r.cm.delConn(c)
		}
		return stopAfter <= 0 || len(out) < stopAfter
	})
	return out
}

// GFDOf reports the position recorded in the connection's identifier.
func (r *VerifRegistry) GFDOf(id int) (fd, el, row, col int) {
	g := r.conns[id].gfd
	return g.Fd(), g.EventLoopIndex(), g.ConnMatrixRow(), g.ConnMatrixColumn()
}

// ---- load balancer

type VerifLB struct {
	lb    loadBalancer
	loops []*eventloop
}

func NewVerifLB(kind string, n int) *VerifLB {
	v := &VerifLB{}
	switch kind {
	case "rr":
		v.lb = new(roundRobinLoadBalancer)
	case "lc":
		v.lb = new(leastConnectionsLoadBalancer)
	default:
		v.lb = new(sourceAddrHashLoadBalancer)
	}
	for i := 0; i < n; i++ {
		el := &eventloop{}
		el.connections.init()
		v.lb.register(el)
		v.loops = append(v.loops, el)
	}
	return v
}

// SetRR sets the round-robin counter (to reach wrap-around states).
func (v *VerifLB) SetRR(next uint64) {
	if rr, ok := v.lb.(*roundRobinLoadBalancer); ok {
		// by reflection: whatever unsigned width the counter has (a narrower one takes the low bits)
		f := reflect.ValueOf(rr).Elem().FieldByName("nextIndex")
		reflect.NewAt(f.Type(), unsafe.Pointer(f.UnsafeAddr())).Elem().SetUint(next)
	}
}

type verifAddr string

func (a verifAddr) Network() string { return "verif" }
func (a verifAddr) String() string  { return string(a) }

// Next asks the balancer for a loop and returns its index (-1 if it is not a registered loop).
func (v *VerifLB) Next(addr string) int {
	var a net.Addr = verifAddr(addr)
	el := v.lb.next(a)
	for i, l := range v.loops {
		if l == el {
			if el.idx != i {
				return -2
			}
			return i
		}
	}
	return -1
}

// AddCount changes the connection count of loop i as accepts/closes do.
func (v *VerifLB) AddCount(i int, delta int32) { v.loops[i].connections.incCount(0, delta) }
func (v *VerifLB) Count(i int) int32           { return v.loops[i].countConn() }
func (v *VerifLB) Len() int                    { return v.lb.len() }

// ---- gfd (internal package)

// VerifGFD packs and unpacks a connection identifier; with upd it applies UpdateIndexes(row2, col2) in between.
func VerifGFD(fd, el, row, col int, upd bool, row2, col2 int) (rfd, rel, rrow, rcol int, seqKept bool) {
	g := gfd.NewGFD(fd, el, row, col)
	seq := g.Sequence()
	if upd {
		g.UpdateIndexes(row2, col2)
	}
	return g.Fd(), g.EventLoopIndex(), g.ConnMatrixRow(), g.ConnMatrixColumn(), g.Sequence() == seq
}

// VerifDims reports the registry dimensions this build was compiled with.
func VerifDims() (rows, cols int) { return gfd.ConnMatrixRowMax, gfd.ConnMatrixColumnMax }
