//go:build verif && gc_opt

package gnet

// Cursor reports the next free position of the matrix registry.
func (r *VerifRegistry) Cursor() (row, col int) { return r.cm.row, r.cm.column }
