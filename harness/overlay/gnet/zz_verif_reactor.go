//go:build verif

package gnet

import (
	"context"
	"net"

	"golang.org/x/sys/unix"

	"golang.org/x/sync/errgroup"

	errorx "github.com/panjf2000/gnet/v2/pkg/errors"
	"github.com/panjf2000/gnet/v2/pkg/netpoll"
	"github.com/panjf2000/gnet/v2/pkg/queue"
)

// VerifLoop is one real event loop (engine + eventloop + poller + listeners) assembled the
// way engine.runEventLoops does for a single loop, but started by the caller.
type VerifLoop struct {
	eng *engine
	el  *eventloop
	lns []*listener
}

// NewVerifLoop creates listeners with gnet's own createListeners (option normalisation
// included) and one event loop that serves them (the SO_REUSEPORT-style `run` loop).
func NewVerifLoop(h EventHandler, addrs []string, opts ...Option) (*VerifLoop, error) {
	listeners, options, err := createListeners(addrs, opts...)
	if err != nil {
		return nil, err
	}
	lns := make(map[int]*listener, len(listeners))
	for _, ln := range listeners {
		lns[ln.fd] = ln
	}
	rootCtx, shutdown := context.WithCancel(context.Background())
	eg, ctx := errgroup.WithContext(rootCtx)
	eng := &engine{
		listeners:    lns,
		opts:         options,
		turnOff:      shutdown,
		eventHandler: h,
		concurrency: struct {
			*errgroup.Group
			ctx context.Context
		}{eg, ctx},
	}
	eng.eventLoops = new(roundRobinLoadBalancer)
	p, err := netpoll.OpenPoller()
	if err != nil {
		return nil, err
	}
	el := new(eventloop)
	el.listeners = lns
	el.engine = eng
	el.poller = p
	el.buffer = make([]byte, options.ReadBufferCap)
	el.connections.init()
	el.eventHandler = h
	for _, ln := range lns {
		if err = el.poller.AddRead(ln.packPollAttachment(el.accept), false); err != nil {
			return nil, err
		}
	}
	eng.eventLoops.register(el)
	return &VerifLoop{eng: eng, el: el, lns: listeners}, nil
}

// Run executes the loop in the calling goroutine until it exits.
func (v *VerifLoop) Run() error { return v.el.run() }

// Shutdown posts the shutdown sentinel the way engine.stop does.
func (v *VerifLoop) Shutdown() error {
	return v.el.poller.Trigger(queue.HighPriority, func(_ any) error { return errorx.ErrEngineShutdown }, nil)
}

// CloseAll closes listeners and poller (engine.closeEventLoops).
func (v *VerifLoop) CloseAll() { v.eng.closeEventLoops() }

func (v *VerifLoop) EventLoop() EventLoop { return v.el }
func (v *VerifLoop) Engine() Engine       { return Engine{v.eng} }
func (v *VerifLoop) Count() int           { return int(v.el.countConn()) }

// SetThreshold sets the poller's high-priority events threshold (see netpoll.Poller.Trigger).
func (v *VerifLoop) SetThreshold(n int32) { v.el.poller.VerifSetThreshold(n) }
func (v *VerifLoop) ListenerFds() (fds []int) {
	for _, ln := range v.lns {
		fds = append(fds, ln.fd)
	}
	return
}

// ListenerAddr is the address the i-th listener is really bound to (getsockname).
func (v *VerifLoop) ListenerAddr(i int) string {
	sa, err := unix.Getsockname(v.lns[i].fd)
	if err != nil {
		return v.lns[i].addr.String()
	}
	switch x := sa.(type) {
	case *unix.SockaddrInet4:
		return (&net.TCPAddr{IP: x.Addr[:], Port: x.Port}).String()
	case *unix.SockaddrInet6:
		return (&net.TCPAddr{IP: x.Addr[:], Port: x.Port}).String()
	}
	return v.lns[i].addr.String()
}
func (v *VerifLoop) Options() (et bool, chunk, rbc, wbc int) {
	o := v.eng.opts
	return o.EdgeTriggeredIO, o.EdgeTriggeredIOChunk, o.ReadBufferCap, o.WriteBufferCap
}

// VerifConnState exposes what the driver needs to cross-check a connection.
func VerifConnState(c Conn) (fd int, opened bool, inbound, outbound int) {
	cc := c.(*conn)
	return cc.fd, cc.opened, cc.inboundBuffer.Buffered() + len(cc.buffer), cc.outboundBuffer.Buffered()
}
