//go:build verif

package gnet

import (
	"fmt"
	"net"
	"os"
	"sync"
	"sync/atomic"
	"time"

	"golang.org/x/sys/unix"

	"github.com/panjf2000/gnet/v2/pkg/logging"
	"github.com/panjf2000/gnet/v2/pkg/netpoll"
	"github.com/panjf2000/gnet/v2/pkg/queue"
)

// The drain-and-abort protocol (Model/Drain.lean) on the REAL functions, two goroutines per round, many rounds with
// a varying start offset: one goroutine is the event loop that has left Polling (closeConns, real), the other hands a
// registration to that loop:
//
//	mode "loop":    a producer written here that follows the protocol (Trigger; exited.Load; abortPending)
//	mode "accept0": the real acceptor callback accept0 on a listening unix socket with one connection waiting
//	mode "enroll":  the real eventloop.enroll (Engine.Register with a net.Conn) on one end of a socket pair
//	mode "enrollctx": the real Client.EnrollContext on one end of a socket pair
//
// When both are done nobody will touch the queue again; what is still in it is stranded.
type VerifDrainResult struct {
	Rounds, Handed, Aborted, Left, Open, Unanswered, Errors int
}

func verifDrainEngine() (*engine, *eventloop, *eventloop, error) {
	eng := &engine{
		listeners:    map[int]*listener{},
		opts:         &Options{ReadBufferCap: 4096, WriteBufferCap: 4096, Logger: logging.GetDefaultLogger()},
		eventHandler: &BuiltinEventEngine{},
		turnOff:      func() {},
	}
	eng.eventLoops = new(roundRobinLoadBalancer)
	mk := func() (*eventloop, error) {
		p, err := netpoll.OpenPoller()
		if err != nil {
			return nil, err
		}
		el := new(eventloop)
		el.listeners = eng.listeners
		el.engine = eng
		el.poller = p
		el.buffer = make([]byte, eng.opts.ReadBufferCap)
		el.connections.init()
		el.eventHandler = eng.eventHandler
		return el, nil
	}
	target, err := mk()
	if err != nil {
		return nil, nil, nil, err
	}
	eng.eventLoops.register(target)
	acc, err := mk()
	if err != nil {
		return nil, nil, nil, err
	}
	acc.idx = -1
	eng.ingress = acc
	return eng, target, acc, nil
}

// VerifDrainHammer runs `rounds` rounds of the given mode.
func VerifDrainHammer(mode string, rounds int) (res VerifDrainResult, err error) {
	eng, target, acc, err := verifDrainEngine()
	if err != nil {
		return res, err
	}
	defer target.poller.Close() //nolint:errcheck
	defer acc.poller.Close()    //nolint:errcheck

	var lnfd int
	var lnAddr *unix.SockaddrUnix
	if mode == "accept0" {
		lnfd, err = unix.Socket(unix.AF_UNIX, unix.SOCK_STREAM|unix.SOCK_NONBLOCK|unix.SOCK_CLOEXEC, 0)
		if err != nil {
			return res, err
		}
		defer unix.Close(lnfd) //nolint:errcheck
		name := fmt.Sprintf("@verif-drain-%d-%d", os.Getpid(), time.Now().UnixNano())
		lnAddr = &unix.SockaddrUnix{Name: name}
		if err = unix.Bind(lnfd, lnAddr); err != nil {
			return res, err
		}
		if err = unix.Listen(lnfd, 16); err != nil {
			return res, err
		}
		eng.listeners[lnfd] = &listener{fd: lnfd, network: "unix", address: name, addr: &net.UnixAddr{Name: name, Net: "unix"}}
	}

	var aborted int64
	for i := 0; i < rounds; i++ {
		res.Rounds++
		target.exited.Store(false) // a fresh loop that is about to leave Polling
		var peer = -1
		var handedConn net.Conn
		var ccb *connWithCallback
		switch mode {
		case "loop":
			fd, e := unix.Dup(int(os.Stdin.Fd()))
			if e != nil {
				return res, e
			}
			ccb = &connWithCallback{c: &conn{fd: fd}, cb: func() { atomic.AddInt64(&aborted, 1) }}
		case "accept0":
			peer, err = unix.Socket(unix.AF_UNIX, unix.SOCK_STREAM|unix.SOCK_CLOEXEC, 0)
			if err != nil {
				return res, err
			}
			if err = unix.Connect(peer, lnAddr); err != nil {
				unix.Close(peer) //nolint:errcheck
				return res, err
			}
		case "enroll", "enrollctx":
			sp, e := unix.Socketpair(unix.AF_UNIX, unix.SOCK_STREAM|unix.SOCK_CLOEXEC, 0)
			if e != nil {
				return res, e
			}
			peer = sp[1]
			f := os.NewFile(uintptr(sp[0]), "verif-enroll")
			handedConn, e = net.FileConn(f)
			f.Close() //nolint:errcheck
			if e != nil {
				unix.Close(peer) //nolint:errcheck
				return res, e
			}
		default:
			return res, fmt.Errorf("unknown mode %s", mode)
		}
		res.Handed++

		var start int32
		var wg sync.WaitGroup
		wg.Add(2)
		delayLoop, delayProd := 0, 0
		if d := (i % 64) - 24; d > 0 { // sweep the offset between the two: most rounds delay the loop (the producers' way is longer)
			delayLoop = d * 8
		} else {
			delayProd = -d * 4
		}
		spin := func(n int) {
			for k := 0; k < n; k++ {
				_ = atomic.LoadInt32(&start)
			}
		}
		unanswered := false
		go func() { // the event loop, after Polling returned
			defer wg.Done()
			for atomic.LoadInt32(&start) == 0 {
			}
			spin(delayLoop)
			target.closeConns()
		}()
		go func() { // the producer
			defer wg.Done()
			for atomic.LoadInt32(&start) == 0 {
			}
			spin(delayProd)
			switch mode {
			case "loop":
				_ = target.poller.Trigger(queue.HighPriority, target.register, ccb)
				if target.exited.Load() {
					target.abortPending()
				}
			case "accept0":
				if e := acc.accept0(lnfd, 0, 0); e != nil {
					res.Errors++
				}
			case "enrollctx":
				done := make(chan bool, 1)
				go func() {
					_, e := (&Client{opts: eng.opts, eng: eng}).EnrollContext(handedConn, nil)
					done <- e == nil
				}()
				select {
				case registered := <-done:
					if registered {
						res.Errors++ // nobody runs tasks in this set-up: a success would be wrong
					}
				case <-time.After(10 * time.Second):
					unanswered = true
				}
			case "enroll":
				ch, e := target.enroll(handedConn, handedConn.RemoteAddr(), nil)
				if e != nil {
					res.Errors++
					return
				}
				select {
				case r, ok := <-ch:
					if ok && r.Err == nil {
						res.Errors++ // nobody runs tasks in this set-up: a success would be wrong
					}
				case <-time.After(10 * time.Second):
					unanswered = true
				}
			}
		}()
		atomic.StoreInt32(&start, 1)
		wg.Wait()
		if unanswered {
			res.Unanswered++
		}
		// both are done: nothing may be left
		target.poller.Drain(func(task *queue.Task) {
			res.Left++
			if c, ok := task.Param.(*connWithCallback); ok {
				unix.Close(c.c.fd) //nolint:errcheck
			}
		})
		if peer >= 0 {
			if res.Left == 0 && !unanswered {
				// the descriptor that was handed over must have been closed: the peer reads end-of-file
				// (enroll closes the net.Conn it was given after it has sent its result: wait for that)
				_ = unix.SetNonblock(peer, true)
				pfd := []unix.PollFd{{Fd: int32(peer), Events: unix.POLLIN | unix.POLLHUP}}
				for k := 0; k < 20; k++ {
					if n, e := unix.Poll(pfd, 100); n > 0 || (e != nil && e != unix.EINTR) {
						break
					}
				}
				var b [1]byte
				if n, e := unix.Read(peer, b[:]); n == 0 && e == nil {
					atomic.AddInt64(&aborted, 1)
				} else {
					res.Open++
				}
			}
			unix.Close(peer) //nolint:errcheck
		}
		if res.Left > 0 || res.Unanswered > 0 || res.Open > 0 {
			break // one is enough
		}
	}
	res.Aborted = int(atomic.LoadInt64(&aborted))
	return res, nil
}
