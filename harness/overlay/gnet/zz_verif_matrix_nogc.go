//go:build verif && !gc_opt

package gnet

// Cursor: the map registry has no cursor.
func (r *VerifRegistry) Cursor() (row, col int) { return 0, 0 }
