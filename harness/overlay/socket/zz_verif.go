//go:build verif

package socket

// Verification exports of the unexported helpers of sockaddr.go.
func VerifItod(v uint) string              { return itod(v) }
func VerifDtoi(s string) (int, int, bool)  { return dtoi(s, 0) }
func VerifZoneToInt(zone string) int       { return ip6ZoneToInt(zone) }
func VerifZoneToString(zone uint32) string { return ip6ZoneToString(zone) }
