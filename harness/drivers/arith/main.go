// Driver for C20 (and the normalisation half of C16): integer arithmetic.
// Every op is independent; a panic is an ordinary result ("r=panic").
package main

import (
	"errors"
	"flag"
	"fmt"
	"math"
	"net/url"
	"os"
	"path"
	"runtime"
	"strconv"
	"strings"

	gnet "github.com/panjf2000/gnet/v2"
	errorx "github.com/panjf2000/gnet/v2/pkg/errors"
	gmath "github.com/panjf2000/gnet/v2/pkg/math"
	bsPool "github.com/panjf2000/gnet/v2/pkg/pool/byteslice"
	rbPool "github.com/panjf2000/gnet/v2/pkg/pool/ringbuffer"

	"gnetverif/harness/util"
)

func isPow2(n int) bool {
	if n <= 0 {
		return false
	}
	for n%2 == 0 {
		n /= 2
	}
	return n == 1
}

// brute-force neighbours
func ceilRef(n int) (int, bool) { // smallest power of two >= max(n,2); false if none fits
	if n < 2 {
		n = 2
	}
	p := 1
	for p < n {
		if p > math.MaxInt/2 {
			return 0, false
		}
		p *= 2
	}
	return p, true
}

func floorRef(n int) int {
	if n <= 2 {
		return n
	}
	p := 1
	for p <= n/2 {
		p *= 2
	}
	return p
}

func guard(f func() string) (s string) {
	defer func() {
		if r := recover(); r != nil {
			s = "r=panic"
		}
	}()
	return f()
}

func atoi(s string) int { n, _ := strconv.Atoi(s); return n }

func step(ws []string) string {
	switch ws[0] {
	case "ispow2":
		n := atoi(ws[1])
		r := gmath.IsPowerOfTwo(n)
		if r != isPow2(n) {
			util.Fail(fmt.Sprintf("IsPowerOfTwo(%d) = %v", n, r))
		}
		return "r=" + util.B(r)
	case "ceil":
		n := atoi(ws[1])
		out := guard(func() string { return fmt.Sprintf("r=%d", gmath.CeilToPowerOfTwo(n)) })
		want, ok := ceilRef(n)
		if ok && out != fmt.Sprintf("r=%d", want) {
			util.Fail(fmt.Sprintf("CeilToPowerOfTwo(%d): %s, want %d", n, out, want))
		}
		if !ok && out != "r=panic" {
			util.Fail(fmt.Sprintf("CeilToPowerOfTwo(%d): %s although no power of two fits", n, out))
		}
		return out
	case "floor":
		n := atoi(ws[1])
		out := guard(func() string { return fmt.Sprintf("r=%d", gmath.FloorToPowerOfTwo(n)) })
		if out != fmt.Sprintf("r=%d", floorRef(n)) {
			util.Fail(fmt.Sprintf("FloorToPowerOfTwo(%d): %s, want %d", n, out, floorRef(n)))
		}
		return out
	case "closest":
		n := atoi(ws[1])
		out := guard(func() string { return fmt.Sprintf("r=%d", gmath.ClosestPowerOfTwo(n)) })
		if n >= 1 {
			up, ok := ceilRef(n)
			lo := floorRef(n)
			if n == 1 {
				lo = 1
			}
			if ok {
				want := up
				if n-lo < up-n {
					want = lo
				}
				if n >= 2 && out != fmt.Sprintf("r=%d", want) {
					util.Fail(fmt.Sprintf("ClosestPowerOfTwo(%d): %s, want %d", n, out, want))
				}
			} else if n-lo < (math.MaxInt-n)+1 { // lower neighbour is nearer than 2^63
				if out != fmt.Sprintf("r=%d", lo) {
					util.Fail(fmt.Sprintf("ClosestPowerOfTwo(%d): %s, the nearer neighbour %d exists", n, out, lo))
				}
			}
		}
		return out
	case "bsindex":
		n, _ := strconv.ParseUint(ws[1], 10, 32)
		r := bsPool.VerifIndex(uint32(n))
		if n >= 1 && n <= 1<<31 {
			want := uint32(0)
			for uint64(1)<<want < n {
				want++
			}
			if r != want {
				util.Fail(fmt.Sprintf("byteslice index(%d) = %d, want %d", n, r, want))
			}
		}
		return fmt.Sprintf("r=%d", r)
	case "rbindex":
		n := atoi(ws[1])
		return guard(func() string { return fmt.Sprintf("r=%d", rbPool.VerifIndex(n)) })
	case "evloops":
		r := gnet.VerifDetermineEventLoops(ws[1] == "1", atoi(ws[2]))
		if r < 1 && !(ws[1] == "1" && atoi(ws[2]) <= 0 && atoi(ws[3]) < 1) || r > 256 {
			util.Fail(fmt.Sprintf("determineEventLoops = %d outside 1..256", r))
		}
		return fmt.Sprintf("r=%d", r)
	case "normserver", "normclient":
		rbc, wbc, chunk, et := atoi(ws[1]), atoi(ws[2]), atoi(ws[3]), ws[4] == "1"
		return guard(func() string {
			var r, w, c int
			var e bool
			var err error
			if ws[0] == "normserver" {
				r, w, c, e, err = gnet.VerifNormServer(rbc, wbc, chunk, et)
			} else {
				r, w, c, e, err = gnet.VerifNormClient(rbc, wbc, chunk, et)
			}
			if err != nil {
				return "r=error"
			}
			for _, x := range [][2]int{{rbc, r}, {wbc, w}} {
				if !isPow2(x[1]) || x[1] < x[0] || x[1] < 1024 || (x[0] <= 0 && x[1] != 65536) {
					util.Fail(fmt.Sprintf("buffer capacity %d normalised to %d", x[0], x[1]))
				}
			}
			if chunk > 0 && (!isPow2(c) || c < chunk || !e) {
				util.Fail(fmt.Sprintf("chunk %d normalised to %d et=%v", chunk, c, e))
			}
			return fmt.Sprintf("r=%d w=%d c=%d et=%s", r, w, c, util.B(e))
		})
	case "parse":
		addr := string(util.UnHex(ws[1]))
		return parseOp(addr)
	case "gfd":
		fd, el, row, col := atoi(ws[1]), atoi(ws[2]), atoi(ws[3]), atoi(ws[4])
		rfd, rel, rrow, rcol, _ := gnet.VerifGFD(fd, el, row, col, false, 0, 0)
		if fd >= 0 && el >= 0 && el < 256 && row >= 0 && row < 256 && col >= 0 && col < 65536 {
			if rfd != fd || rel != el || rrow != row || rcol != col {
				util.Fail(fmt.Sprintf("GFD round trip (%d,%d,%d,%d) -> (%d,%d,%d,%d)", fd, el, row, col, rfd, rel, rrow, rcol))
			}
		}
		return fmt.Sprintf("fd=%d el=%d row=%d col=%d", rfd, rel, rrow, rcol)
	case "gfdupd":
		fd, el, row, col, row2, col2 := atoi(ws[1]), atoi(ws[2]), atoi(ws[3]), atoi(ws[4]), atoi(ws[5]), atoi(ws[6])
		rfd, rel, rrow, rcol, seqKept := gnet.VerifGFD(fd, el, row, col, true, row2, col2)
		if fd >= 0 && el >= 0 && el < 256 && row2 >= 0 && row2 < 256 && col2 >= 0 && col2 < 65536 {
			if rfd != fd || rel != el || rrow != row2 || rcol != col2 || !seqKept {
				util.Fail(fmt.Sprintf("UpdateIndexes(%d,%d) on (%d,%d,%d,%d) -> (%d,%d,%d,%d)", row2, col2, fd, el, row, col, rfd, rel, rrow, rcol))
			}
		}
		return fmt.Sprintf("fd=%d el=%d row=%d col=%d", rfd, rel, rrow, rcol)
	}
	return "bad-op"
}

// wellFormed is set by the generator for addresses produced from the grammar: expected result
var expect = map[string][2]string{}

func parseOp(addr string) string {
	var reply string
	func() {
		defer func() {
			if r := recover(); r != nil {
				util.Fail(fmt.Sprintf("parseProtoAddr(%q) panicked: %v", addr, r))
				reply = "r=panic"
			}
		}()
		proto, ep, err := gnet.VerifParseProtoAddr(addr)
		switch {
		case err == nil:
			ok := false
			for _, s := range []string{"tcp", "tcp4", "tcp6", "udp", "udp4", "udp6", "unix"} {
				ok = ok || proto == s
			}
			if !ok || ep == "" {
				util.Fail(fmt.Sprintf("parseProtoAddr(%q) = (%q, %q) without error", addr, proto, ep))
			}
			reply = fmt.Sprintf("r=ok scheme=%s ep=%s", proto, util.Hex([]byte(ep)))
		case errors.Is(err, errorx.ErrInvalidNetworkAddress):
			reply = "r=err:invalid"
		case errors.Is(err, errorx.ErrUnsupportedProtocol):
			reply = "r=err:unsupported"
		default:
			reply = "r=err:url"
		}
		// oracle for well-formed addresses (the grammar the property names)
		if want, isWF := wellFormed(addr); isWF {
			if reply != want {
				util.Fail(fmt.Sprintf("parseProtoAddr(%q): %s, want %s", addr, reply, want))
			}
		}
	}()
	// what net/url and path return for the escaped address: inputs of the model
	u, uerr := url.Parse(strings.ReplaceAll(addr, "%", "%25"))
	ann := "1 - - - -"
	if uerr == nil {
		ann = fmt.Sprintf("0 %s %s %s %s", util.Hex([]byte(u.Scheme)), util.Hex([]byte(u.Host)), util.Hex([]byte(u.Path)), util.Hex([]byte(path.Join(u.Host, u.Path))))
	}
	return reply + " @@ " + ann
}

const hostChars = "abcdefghijklmnopqrstuvwxyz0123456789-."

func isHostName(s string) bool {
	if s == "" {
		return false
	}
	for _, c := range s {
		if !strings.ContainsRune(hostChars, c) {
			return false
		}
	}
	return true
}

func isPort(s string) bool {
	if s == "" || len(s) > 5 {
		return false
	}
	for _, c := range s {
		if c < '0' || c > '9' {
			return false
		}
	}
	return true
}

// wellFormed recognises scheme "://" (name | v4 | "[" v6 ["%" zone] "]") ":" port and unix://path and
// returns the reply the property demands.
func wellFormed(addr string) (string, bool) {
	i := strings.Index(addr, "://")
	if i < 0 {
		return "", false
	}
	scheme, rest := addr[:i], addr[i+3:]
	lower := strings.ToLower(scheme)
	ip := false
	for _, s := range []string{"tcp", "tcp4", "tcp6", "udp", "udp4", "udp6"} {
		ip = ip || lower == s
	}
	if ip {
		j := strings.LastIndex(rest, ":")
		if j < 0 || !isPort(rest[j+1:]) {
			return "", false
		}
		host := rest[:j]
		if strings.HasPrefix(host, "[") && strings.HasSuffix(host, "]") {
			in := host[1 : len(host)-1]
			z := ""
			if k := strings.Index(in, "%"); k >= 0 {
				in, z = in[:k], in[k+1:]
				if !isHostName(z) {
					return "", false
				}
			}
			for _, c := range in {
				if !strings.ContainsRune("0123456789abcdef:", c) {
					return "", false
				}
			}
			if in == "" {
				return "", false
			}
		} else if !isHostName(host) {
			return "", false
		}
		return fmt.Sprintf("r=ok scheme=%s ep=%s", lower, util.Hex([]byte(rest))), true
	}
	if lower == "unix" {
		for _, c := range rest {
			if !strings.ContainsRune(hostChars+"/_", c) {
				return "", false
			}
		}
		if rest == "" {
			return "r=err:invalid", true
		}
		if strings.Contains(rest, ":") {
			return "", false
		}
		return fmt.Sprintf("r=ok scheme=unix ep=%s", util.Hex([]byte(path.Clean(rest)))), true
	}
	return "", false
}

func genAddr(r *util.Rng) string {
	schemes := []string{"tcp", "tcp4", "tcp6", "udp", "udp4", "udp6", "unix", "TCP", "Udp4", "http", "", "unixgram", "tcp7"}
	sc := schemes[r.Intn(len(schemes))]
	name := func() string {
		parts := []string{"localhost", "example.com", "a", "x-1.y", "0"}
		return parts[r.Intn(len(parts))]
	}
	host := ""
	switch r.Intn(6) {
	case 0:
		host = name()
	case 1:
		host = fmt.Sprintf("%d.%d.%d.%d", r.Intn(256), r.Intn(256), r.Intn(256), r.Intn(256))
	case 2:
		host = "[::1]"
	case 3:
		host = fmt.Sprintf("[fe80::%x:%x%%%s]", r.Intn(65536), r.Intn(65536), []string{"eth0", "lo0", "1", "en-1", "25g0", "251", "25", "2", "%25eth0"}[r.Intn(9)])
	case 4:
		host = fmt.Sprintf("[2001:db8::%x]", r.Intn(65536))
	case 5:
		host = ""
	}
	port := []string{"80", "0", "65535", "9851", "", "x", "123456"}[r.Intn(7)]
	sep := []string{"://", "://", "://", ":", ":/", "//", ""}[r.Intn(7)]
	if strings.ToLower(sc) == "unix" {
		p := []string{"/tmp/a.sock", "a.sock", "/tmp/../x/./y.sock", "/", "", "dir/sub/s", "/a//b/", "/../x", "../x", "./", ".", "/a/../../b", "a/..", "..", "/a/./b/../c.sock", "a%2f..", "//x", "/tmp/load100%25.sock", "%25", "/a%2525b", "/x%2"}[r.Intn(21)]
		return sc + sep + p
	}
	s := sc + sep + host
	if r.Intn(8) != 0 {
		s += ":" + port
	}
	if r.Intn(12) == 0 {
		s += []string{"/path", "?q=1", "#frag", "/", " "}[r.Intn(5)]
	}
	return s
}

func genMalformed(r *util.Rng) string {
	alphabet := []byte("a:/[]%@?#.125 \x00\\tcpunix-_~!$&'()*+,;=<>\"{}|^`\x7f\x80\xff")
	n := r.Intn(14)
	b := make([]byte, n)
	for i := range b {
		b[i] = alphabet[r.Intn(len(alphabet))]
	}
	s := string(b)
	if r.Intn(2) == 0 {
		s = []string{"tcp://", "unix://", "udp6://[", "tcp:", "://"}[r.Intn(5)] + s
	}
	return s
}

func interesting(r *util.Rng) int {
	k := r.Intn(64)
	p := 1 << uint(k)
	switch r.Intn(10) {
	case 0:
		return p - 1
	case 1:
		return p
	case 2:
		return p + 1
	case 3:
		return -r.Intn(5)
	case 4:
		return r.Intn(5000)
	case 5:
		return p + p/2
	case 6:
		return p + p/2 - 1
	case 7:
		return p + p/2 + 1
	case 8:
		return math.MaxInt - r.Intn(3)
	}
	return int(r.Uint64() >> uint(r.Intn(63)))
}

func main() {
	mode := flag.String("mode", "exec", "gen|exec")
	seed := flag.Int64("seed", 1, "PRNG seed")
	cases := flag.Int("cases", 1000, "number of ops per kind")
	kind := flag.String("kind", "arith", "arith|parse")
	flag.Parse()
	switch *mode {
	case "gen":
		r := util.NewRng(*seed)
		var b strings.Builder
		ncpu := runtime.NumCPU()
		id := 0
		emit := func(s string) {
			if *kind == "norm" && !strings.HasPrefix(s, "norm") && !strings.HasPrefix(s, "evloops") {
				return
			}
			fmt.Fprintf(&b, "case %d\n%s\n", id, s)
			id++
		}
		if *kind == "parse" {
			wf, mal := 0, 0
			for i := 0; i < *cases; i++ {
				a := genAddr(r)
				if i%3 == 2 {
					a = genMalformed(r)
					mal++
				} else {
					wf++
				}
				emit("parse " + util.Hex([]byte(a)))
			}
			os.Stdout.WriteString(b.String())
			fmt.Fprintf(os.Stderr, "DIST grammar=%d malformed=%d\n", wf, mal)
			return
		}
		// systematic: every 2^k-1, 2^k, 2^k+1 and the midpoints
		for k := 0; k < 64; k++ {
			p := 1 << uint(k)
			for _, n := range []int{p - 1, p, p + 1, p + p/2 - 1, p + p/2, p + p/2 + 1, -p} {
				for _, op := range []string{"ispow2", "ceil", "floor", "closest", "rbindex"} {
					emit(fmt.Sprintf("%s %d", op, n))
				}
				if n >= 0 && n <= math.MaxUint32 {
					emit(fmt.Sprintf("bsindex %d", n))
				}
				emit(fmt.Sprintf("normserver %d %d %d %d", n, p+1, p-1, k%2))
				emit(fmt.Sprintf("normclient %d %d %d %d", p-1, n, p+1, k%2))
			}
		}
		for i := 0; i < *cases; i++ {
			n := interesting(r)
			for _, op := range []string{"ispow2", "ceil", "floor", "closest", "rbindex"} {
				emit(fmt.Sprintf("%s %d", op, n))
			}
			emit(fmt.Sprintf("bsindex %d", uint32(interesting(r))))
			emit(fmt.Sprintf("evloops %d %d %d", r.Intn(2), r.Pick(-1, 0, 1, 2, 255, 256, 257, 10000, interesting(r)), ncpu))
			emit(fmt.Sprintf("normserver %d %d %d %d", interesting(r), interesting(r), interesting(r), r.Intn(2)))
			emit(fmt.Sprintf("normclient %d %d %d %d", interesting(r), interesting(r), interesting(r), r.Intn(2)))
			fd := r.Pick(0, 1, 3, 255, 256, 65535, 65536, 1<<31-1, 1<<31, 1<<32, math.MaxInt, r.Intn(1<<20))
			el, row, col := r.Pick(0, 1, 127, 128, 255), r.Pick(0, 1, 127, 128, 255), r.Pick(0, 1, 255, 256, 32767, 32768, 65535, r.Intn(65536))
			emit(fmt.Sprintf("gfd %d %d %d %d", fd, el, row, col))
			emit(fmt.Sprintf("gfdupd %d %d %d %d %d %d", fd, el, row, col, r.Pick(0, 1, 128, 255), r.Pick(0, 255, 256, 65535, r.Intn(65536))))
			if i%20 == 0 { // out-of-range fields: truncation must agree between model and code
				emit(fmt.Sprintf("gfd %d %d %d %d", -r.Intn(3), 256+r.Intn(3), 256+r.Intn(300), 65536+r.Intn(70000)))
			}
		}
		os.Stdout.WriteString(b.String())
		fmt.Fprintf(os.Stderr, "DIST systematic=64x7 values x 8 ops, random=%d x 11 ops\n", *cases)
	case "exec":
		util.Exec(func(string) {}, step)
		if util.Fails > 0 {
			os.Exit(3)
		}
	}
}
