// Driver for C12: the byte-slice pool (and the ring-buffer pool) with an address ledger.
// What sync.Pool decides (which stored pointer comes back, or none) is reported to the model
// after " @@ " and becomes an input of the model.
package main

import (
	"flag"
	"fmt"
	"os"
	"runtime"
	"strconv"
	"strings"
	"unsafe"

	"github.com/panjf2000/gnet/v2/pkg/buffer/ring"
	bsPool "github.com/panjf2000/gnet/v2/pkg/pool/byteslice"
	rbPool "github.com/panjf2000/gnet/v2/pkg/pool/ringbuffer"

	"gnetverif/harness/util"
)

type outSlice struct {
	id     int
	buf    []byte
	base   uintptr
	cap    int
	canary byte
	alloc  int // symbolic allocation id
	off    int
}

type storedPtr struct {
	tag   int
	base  uintptr
	limit uintptr // end of the memory the Put slice owned
	alloc int
	off   int
	class int
}

type state struct {
	opno   int
	out    map[int]*outSlice
	stored []storedPtr
	nalloc int
	rings  map[*ring.Buffer]bool
	keep   [][]byte // keeps every allocation alive so that addresses are never reused
}

var st state

func atoi(s string) int { n, _ := strconv.Atoi(s); return n }

func fill(o *outSlice) {
	b := o.buf[:o.cap]
	for i := range b {
		b[i] = o.canary
	}
}

func checkCanaries(when string) {
	for _, o := range st.out {
		b := o.buf[:o.cap]
		for i := range b {
			if b[i] != o.canary {
				util.Fail(fmt.Sprintf("%s: slice #%d (cap %d) was overwritten at offset %d through another slice", when, o.id, o.cap, i))
				return
			}
		}
	}
}

func overlaps(base uintptr, n int) *outSlice {
	for _, o := range st.out {
		if base < o.base+uintptr(o.cap) && o.base < base+uintptr(n) {
			return o
		}
	}
	return nil
}

func classOfCap(c int) int { // capacity 2^k -> k
	k := 0
	for 1<<uint(k) < c {
		k++
	}
	return k
}

func step(ws []string) string {
	st.opno++
	switch ws[0] {
	case "get":
		size := atoi(ws[1])
		buf := bsPool.Get(size)
		if size <= 0 {
			if buf != nil {
				util.Fail(fmt.Sprintf("Get(%d) returned a non-nil slice", size))
			}
			return "nil"
		}
		if len(buf) != size || cap(buf) < size {
			util.Fail(fmt.Sprintf("Get(%d) returned len=%d cap=%d", size, len(buf), cap(buf)))
		}
		base := uintptr(unsafe.Pointer(unsafe.SliceData(buf)))
		if o := overlaps(base, cap(buf)); o != nil {
			util.Fail(fmt.Sprintf("Get(%d) returned memory overlapping outstanding slice #%d", size, o.id))
		}
		o := &outSlice{id: st.opno, buf: buf, base: base, cap: cap(buf), canary: byte(st.opno%250 + 1)}
		ann := "miss"
		for i, sp := range st.stored {
			if sp.base == base {
				if base+uintptr(cap(buf)) > sp.limit {
					util.Fail(fmt.Sprintf("Get(%d) hands out %d bytes at a pointer whose Put slice owned only %d", size, cap(buf), sp.limit-sp.base))
				}
				ann = fmt.Sprintf("hit=%d", sp.tag)
				o.alloc, o.off = sp.alloc, sp.off
				st.stored = append(st.stored[:i], st.stored[i+1:]...)
				break
			}
		}
		if ann == "miss" {
			o.alloc, o.off = st.nalloc, 0
			st.nalloc++
			st.keep = append(st.keep, buf[:cap(buf)])
		}
		st.out[o.id] = o
		fill(o)
		checkCanaries("after Get")
		return fmt.Sprintf("len=%d cap=%d base=%d+%d @@ %s", len(buf), cap(buf), o.alloc, o.off, ann)
	case "foreign": // memory that never came from the pool, of any capacity
		n := atoi(ws[1])
		buf := make([]byte, n)
		o := &outSlice{id: st.opno, buf: buf, cap: n, canary: byte(st.opno%250 + 1), alloc: st.nalloc}
		if n > 0 {
			o.base = uintptr(unsafe.Pointer(unsafe.SliceData(buf)))
		}
		st.nalloc++
		st.keep = append(st.keep, buf)
		st.out[o.id] = o
		fill(o)
		return fmt.Sprintf("len=%d cap=%d base=%d+0", n, n, o.alloc)
	case "put":
		id, lo, hi := atoi(ws[1]), atoi(ws[2]), atoi(ws[3])
		o := st.out[id]
		if o == nil {
			return "bad-op"
		}
		checkCanaries("before Put")
		delete(st.out, id) // the caller gives the whole slice up
		sub := o.buf[:o.cap][lo:hi:hi]
		bsPool.Put(sub)
		cls := "-"
		if c := cap(sub); c > 0 && c <= 1<<31-1 {
			k := classOfCap(c)
			if 1<<uint(k) != c {
				k--
			}
			cls = strconv.Itoa(k)
			st.stored = append(st.stored, storedPtr{tag: st.opno, base: o.base + uintptr(lo), limit: o.base + uintptr(hi),
				alloc: o.alloc, off: o.off + lo, class: k})
		}
		return "ok class=" + cls
	case "gc":
		runtime.GC()
		runtime.GC()
		checkCanaries("after GC")
		return "ok"
	case "ringget":
		rb := rbPool.Get()
		if !rb.IsEmpty() || rb.Buffered() != 0 {
			util.Fail(fmt.Sprintf("ring from the pool is not empty: Buffered=%d", rb.Buffered()))
		}
		if st.rings[rb] {
			util.Fail("ring-buffer pool handed out a ring that is still held")
		}
		st.rings[rb] = true
		_, _ = rb.Write([]byte{byte(st.opno), 2, 3})
		return "ok"
	case "ringput":
		for rb := range st.rings {
			delete(st.rings, rb)
			rbPool.Put(rb)
			break
		}
		return "ok"
	}
	return "bad-op"
}

func main() {
	mode := flag.String("mode", "exec", "gen|exec")
	seed := flag.Int64("seed", 1, "PRNG seed")
	cases := flag.Int("cases", 1000, "number of cases")
	flag.Parse()
	switch *mode {
	case "gen":
		r := util.NewRng(*seed)
		var b strings.Builder
		hist := map[string]int{}
		for c := 0; c < *cases; c++ {
			fmt.Fprintf(&b, "case %d\n", c)
			type live struct{ id, cap int }
			var out []live
			opno := 0
			nops := 5 + r.Intn(40)
			emit := func(s string) {
				opno++
				hist[strings.Fields(s)[0]]++
				fmt.Fprintln(&b, s)
			}
			capOfGet := func(n int) int {
				k := 0
				for 1<<uint(k) < n {
					k++
				}
				return 1 << uint(k)
			}
			for i := 0; i < nops; i++ {
				switch r.Weighted([]int{30, 8, 30, 3, 3, 3}) {
				case 0:
					n := r.Pick(0, -1, 1, 2, 3, 4, 5, 7, 8, 9, 31, 32, 33, 63, 64, 65, 511, 512, 513, 1023, 1024, 1025, 4096, 4097, 65536, 1+r.Intn(100), 1+r.Intn(5000))
					if c%50 == 49 && i == 0 {
						n = r.Pick(1<<20, 1<<20+1, 1<<24)
					}
					emit(fmt.Sprintf("get %d", n))
					if n > 0 {
						out = append(out, live{opno, capOfGet(n)})
					}
				case 1:
					n := r.Pick(0, 1, 3, 5, 6, 7, 100, 1000, 1023, 1025, 4097, 1+r.Intn(300))
					emit(fmt.Sprintf("foreign %d", n))
					out = append(out, live{opno, n})
				case 2:
					if len(out) > 0 {
						j := r.Intn(len(out))
						o := out[j]
						out = append(out[:j], out[j+1:]...)
						lo, hi := 0, o.cap
						switch r.Intn(5) {
						case 0: // a re-sliced tail
							if o.cap > 0 {
								lo = r.Intn(o.cap + 1)
							}
						case 1: // a shortened slice (odd capacity)
							if o.cap > 0 {
								hi = r.Intn(o.cap + 1)
							}
						case 2: // both
							if o.cap > 1 {
								lo = r.Intn(o.cap)
								hi = lo + r.Intn(o.cap-lo+1)
							}
						}
						emit(fmt.Sprintf("put %d %d %d", o.id, lo, hi))
					}
				case 3:
					emit("gc")
				case 4:
					emit("ringget")
				case 5:
					emit("ringput")
				}
			}
		}
		os.Stdout.WriteString(b.String())
		fmt.Fprintf(os.Stderr, "DIST %v\n", hist)
	case "exec":
		util.Exec(func(string) {
			bsPool.VerifReset()
			rbPool.VerifReset()
			st = state{out: map[int]*outSlice{}, rings: map[*ring.Buffer]bool{}}
		}, step)
		if util.Fails > 0 {
			os.Exit(3)
		}
	}
}
