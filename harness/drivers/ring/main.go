// Driver for C09: ring.Buffer. `gen` writes an op stream, `exec` runs an op stream on the real
// ring.Buffer, prints one reply per op in the format of the Lean driver and evaluates the
// property's own oracle (a reference FIFO) after every operation.
package main

import (
	"bytes"
	"flag"
	"fmt"
	"os"
	"strconv"
	"strings"

	"github.com/panjf2000/gnet/v2/pkg/buffer/ring"

	"gnetverif/harness/util"
)

var known = map[error]string{ring.ErrIsEmpty: "isempty"}

type state struct {
	rb  *ring.Buffer
	ref []byte // the reference FIFO (oracle)
	pos int    // reader position
}

var st state

func stat() string {
	rb := st.rb
	// oracle: counters agree with the reference content
	if rb.Buffered() != len(st.ref) {
		util.Fail(fmt.Sprintf("Buffered=%d but %d bytes are owed", rb.Buffered(), len(st.ref)))
	}
	if rb.Buffered()+rb.Available() != rb.Cap() {
		util.Fail(fmt.Sprintf("Buffered+Available=%d+%d != Cap=%d", rb.Buffered(), rb.Available(), rb.Cap()))
	}
	if rb.IsEmpty() != (len(st.ref) == 0) {
		util.Fail(fmt.Sprintf("IsEmpty=%v with %d bytes owed", rb.IsEmpty(), len(st.ref)))
	}
	if rb.IsFull() != (len(st.ref) == rb.Cap() && rb.Cap() > 0) {
		util.Fail(fmt.Sprintf("IsFull=%v with %d bytes owed, cap %d", rb.IsFull(), len(st.ref), rb.Cap()))
	}
	return fmt.Sprintf(" buffered=%d avail=%d cap=%d len=%d empty=%s full=%s",
		rb.Buffered(), rb.Available(), rb.Cap(), rb.Len(), util.B(rb.IsEmpty()), util.B(rb.IsFull()))
}

func expectPrefix(what string, got []byte, n int) {
	if n > len(st.ref) {
		util.Fail(fmt.Sprintf("%s returned %d bytes but only %d are owed", what, n, len(st.ref)))
		return
	}
	if !bytes.Equal(got, st.ref[:n]) {
		util.Fail(fmt.Sprintf("%s returned %s, owed %s", what, util.Hex(got), util.Hex(st.ref[:n])))
	}
}

func min(a, b int) int {
	if a < b {
		return a
	}
	return b
}

func step(ws []string) string {
	rb := st.rb
	switch ws[0] {
	case "new":
		n, _ := strconv.Atoi(ws[1])
		st = state{rb: ring.New(n)}
		return "ok" + stat()
	case "write", "writestring":
		p := util.UnHex(ws[1])
		var n int
		var err error
		if ws[0] == "write" {
			n, err = rb.Write(p)
		} else {
			n, err = rb.WriteString(string(p))
		}
		st.ref = append(st.ref, p...)
		if n != len(p) || err != nil {
			util.Fail(fmt.Sprintf("Write(%d bytes) = %d, %v", len(p), n, err))
		}
		return fmt.Sprintf("n=%d err=%s", n, util.ErrName(err, known)) + stat()
	case "writebyte":
		p := util.UnHex(ws[1])
		err := rb.WriteByte(p[0])
		st.ref = append(st.ref, p[0])
		return fmt.Sprintf("err=%s", util.ErrName(err, known)) + stat()
	case "read":
		n, _ := strconv.Atoi(ws[1])
		p := make([]byte, n)
		m, err := rb.Read(p)
		if m != min(n, len(st.ref)) {
			util.Fail(fmt.Sprintf("Read(len %d) = %d with %d bytes owed", n, m, len(st.ref)))
		}
		expectPrefix("Read", p[:m], m)
		st.ref = st.ref[min(m, len(st.ref)):]
		return fmt.Sprintf("n=%d err=%s data=%s", m, util.ErrName(err, known), util.Hex(p[:m])) + stat()
	case "readbyte":
		b, err := rb.ReadByte()
		bs := "-"
		if err == nil {
			bs = util.Hex([]byte{b})
			expectPrefix("ReadByte", []byte{b}, 1)
			st.ref = st.ref[min(1, len(st.ref)):]
		} else if len(st.ref) != 0 {
			util.Fail("ReadByte failed on a non-empty buffer")
		}
		return fmt.Sprintf("b=%s err=%s", bs, util.ErrName(err, known)) + stat()
	case "peek":
		n, _ := strconv.Atoi(ws[1])
		h, t := rb.Peek(n)
		want := len(st.ref)
		if n > 0 {
			want = min(n, want)
		}
		got := append(append([]byte{}, h...), t...)
		if len(got) != want {
			util.Fail(fmt.Sprintf("Peek(%d) returned %d bytes, want %d", n, len(got), want))
		}
		expectPrefix("Peek", got, len(got))
		return fmt.Sprintf("head=%s tail=%s", util.Hex(h), util.Hex(t)) + stat()
	case "discard":
		n, _ := strconv.Atoi(ws[1])
		d, err := rb.Discard(n)
		want := 0
		if n > 0 {
			want = min(n, len(st.ref))
		}
		if d != want {
			util.Fail(fmt.Sprintf("Discard(%d) = %d, want %d", n, d, want))
		}
		st.ref = st.ref[min(want, len(st.ref)):]
		return fmt.Sprintf("n=%d err=%s", d, util.ErrName(err, known)) + stat()
	case "bytes":
		b := rb.Bytes()
		if !bytes.Equal(b, st.ref) {
			util.Fail(fmt.Sprintf("Bytes() = %s, owed %s", util.Hex(b), util.Hex(st.ref)))
		}
		return fmt.Sprintf("data=%s", util.Hex(b)) + stat()
	case "readfrom":
		start := st.pos
		r := &util.Reader{Script: util.ParseScript(ws[1]), Pos: &st.pos}
		n, err := rb.ReadFrom(r)
		for i := 0; i < r.Delivered; i++ {
			st.ref = append(st.ref, util.Fresh(start+i))
		}
		if int(n) != r.Delivered {
			util.Fail(fmt.Sprintf("ReadFrom reported %d, reader delivered %d", n, r.Delivered))
		}
		return fmt.Sprintf("n=%d err=%s", n, util.ErrName(err, known)) + stat()
	case "writeto":
		w := &util.Writer{Script: util.ParseScript(ws[1])}
		n, err := rb.WriteTo(w)
		if int(n) != len(w.Sink) {
			util.Fail(fmt.Sprintf("WriteTo reported %d, writer accepted %d", n, len(w.Sink)))
		}
		expectPrefix("WriteTo", w.Sink, len(w.Sink))
		st.ref = st.ref[min(len(w.Sink), len(st.ref)):]
		if err == nil && len(st.ref) != 0 {
			util.Fail("WriteTo returned nil with bytes left")
		}
		return fmt.Sprintf("n=%d err=%s sink=%s", n, util.ErrName(err, known), util.Hex(w.Sink)) + stat()
	case "reset":
		rb.Reset()
		st.ref = nil
		return "ok" + stat()
	}
	return "bad-op"
}

// ---------------------------------------------------------------- generation

type gen struct {
	r       *util.Rng
	ctr     int
	out     *strings.Builder
	rb      *ring.Buffer // shadow instance, only to steer sizes towards boundaries
	pos     int
	hist    map[string]int
	maxSize int
}

func (g *gen) payload(n int) []byte {
	p := make([]byte, n)
	for i := range p {
		g.ctr++
		p[i] = byte((g.ctr*7 + 3) % 256)
	}
	return p
}

// size picks an argument size biased to the boundaries named in the property.
func (g *gen) size() int {
	c, b, a := g.rb.Cap(), g.rb.Buffered(), g.rb.Available()
	cands := []int{0, 1, 2, 3, c - 1, c, c + 1, a - 1, a, a + 1, b - 1, b, b + 1, g.r.Intn(8), g.r.Intn(40)}
	if g.maxSize >= 4096 {
		cands = append(cands, 511, 512, 513, 1023, 1024, 1025, 4095, 4096, 4097, g.r.Intn(3000))
	}
	n := cands[g.r.Intn(len(cands))]
	if n < 0 {
		n = 0
	}
	if n > g.maxSize {
		n = g.maxSize
	}
	return n
}

func (g *gen) script(isReader bool) []util.Step {
	var s []util.Step
	n := 1 + g.r.Intn(3)
	for i := 0; i < n; i++ {
		k := g.size()
		if g.r.Intn(3) == 0 {
			k = 1 << 30 // "as much as offered"
		}
		var err error
		if i == n-1 || g.r.Intn(6) == 0 {
			switch g.r.Intn(4) {
			case 0:
				err = util.ErrOther{Tag: 1}
			case 1:
				if isReader {
					err = util.ErrOther{Tag: 2}
				}
			default:
				if isReader {
					err = parseEOF
				}
			}
		}
		s = append(s, util.Step{K: k, Err: err})
		if err != nil {
			break
		}
	}
	return s
}

var parseEOF = util.ParseScript("0:eof")[0].Err

func (g *gen) emit(op string) {
	g.hist[strings.Fields(op)[0]]++
	fmt.Fprintln(g.out, op)
	// keep the shadow instance in step (it is the real implementation; a panic just ends the case)
	defer func() { _ = recover() }()
	shadowStep(g, strings.Fields(op))
}

func shadowStep(g *gen, ws []string) {
	rb := g.rb
	switch ws[0] {
	case "write", "writestring":
		_, _ = rb.Write(util.UnHex(ws[1]))
	case "writebyte":
		_ = rb.WriteByte(1)
	case "read":
		n, _ := strconv.Atoi(ws[1])
		_, _ = rb.Read(make([]byte, n))
	case "readbyte":
		_, _ = rb.ReadByte()
	case "discard":
		n, _ := strconv.Atoi(ws[1])
		_, _ = rb.Discard(n)
	case "readfrom":
		_, _ = rb.ReadFrom(&util.Reader{Script: util.ParseScript(ws[1]), Pos: &g.pos})
	case "writeto":
		_, _ = rb.WriteTo(&util.Writer{Script: util.ParseScript(ws[1])})
	case "reset":
		rb.Reset()
	}
}

func (g *gen) genCase(id int, big bool) {
	fmt.Fprintf(g.out, "case %d\n", id)
	g.maxSize = 40
	inits := []int{0, 1, 2, 3, 4, 5, 8, 16, 17}
	if big {
		g.maxSize = 6000
		inits = []int{0, 512, 1000, 1024, 2048, 4095, 4096, 4097, 5000, 8192}
	}
	n := inits[g.r.Intn(len(inits))]
	if g.r.Intn(40) == 0 {
		n = -g.r.Intn(5)
	}
	g.rb = ring.New(n)
	g.pos = 0
	fmt.Fprintf(g.out, "new %d\n", n)
	g.hist["new"]++
	nops := 4 + g.r.Intn(30)
	if big {
		nops = 3 + g.r.Intn(12)
	}
	weights := []int{22, 3, 8, 14, 6, 8, 8, 5, 7, 7, 2}
	for i := 0; i < nops; i++ {
		switch g.r.Weighted(weights) {
		case 0:
			g.emit("write " + util.Hex(g.payload(g.size())))
		case 1:
			g.emit("writestring " + util.Hex(g.payload(g.size())))
		case 2:
			g.emit("writebyte " + util.Hex(g.payload(1)))
		case 3:
			g.emit(fmt.Sprintf("read %d", g.size()))
		case 4:
			g.emit("readbyte")
		case 5:
			n := g.size()
			if g.r.Intn(5) == 0 {
				n = -g.r.Intn(3)
			}
			g.emit(fmt.Sprintf("peek %d", n))
		case 6:
			n := g.size()
			if g.r.Intn(8) == 0 {
				n = -g.r.Intn(3)
			}
			g.emit(fmt.Sprintf("discard %d", n))
		case 7:
			g.emit("bytes")
		case 8:
			if big || g.r.Intn(3) == 0 { // ReadFrom grows by >= 512; keep most small cases small
				g.emit("readfrom " + util.ScriptString(g.script(true)))
			}
		case 9:
			g.emit("writeto " + util.ScriptString(g.script(false)))
		case 10:
			g.emit("reset")
		}
	}
}

func main() {
	mode := flag.String("mode", "exec", "gen|exec")
	seed := flag.Int64("seed", 1, "PRNG seed")
	cases := flag.Int("cases", 1000, "number of cases to generate")
	flag.Parse()
	switch *mode {
	case "gen":
		g := &gen{r: util.NewRng(*seed), out: &strings.Builder{}, hist: map[string]int{}}
		for i := 0; i < *cases; i++ {
			g.genCase(i, i%5 == 4)
			if g.out.Len() > 1<<20 {
				os.Stdout.WriteString(g.out.String())
				g.out.Reset()
			}
		}
		os.Stdout.WriteString(g.out.String())
		fmt.Fprintf(os.Stderr, "DIST %v\n", g.hist)
	case "exec":
		util.Exec(func(string) { st = state{rb: ring.New(0)} }, step)
		if util.Fails > 0 {
			os.Exit(3)
		}
	}
}
