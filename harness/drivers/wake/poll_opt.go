//go:build poll_opt

package main

import "github.com/panjf2000/gnet/v2/pkg/netpoll"

func runPolling(p *netpoll.Poller) error { return p.Polling() }
