// Driver for C03: the wake-up protocol (Trigger / Polling) under a cooperative scheduler.
// Both poller files and the queue are instrumented at build time; every atomic operation and
// every eventfd/epoll system call is one `step <tid>`. Thread 0 is the event loop.
package main

import (
	"flag"
	"fmt"
	"os"
	"strconv"
	"strings"
	"sync"
	"time"
	"unsafe"

	errorx "github.com/panjf2000/gnet/v2/pkg/errors"
	"github.com/panjf2000/gnet/v2/pkg/netpoll"
	"github.com/panjf2000/gnet/v2/pkg/queue"
	vs "github.com/panjf2000/gnet/v2/pkg/verifsched"

	"gnetverif/harness/util"
)

type trig struct {
	task int
	low  bool
}

type worker struct {
	ops   chan trig
	grant chan struct{}
	busy  bool
}

type state struct {
	p          *netpoll.Poller
	uq, lq     queue.AsyncTaskQueue
	ud, ld     unsafe.Pointer
	ws         []*worker // index 0 = loop
	executed   []int
	fromU      int
	fromL      int
	accepted   map[int]bool
	ran        map[int]int
	hpIssue    map[int][2]int // high-priority task -> (issuing producer, its issue index)
	hpCount    map[int]int    // producer -> number of high-priority requests issued so far
	hpLast     map[int][2]int // producer -> (highest issue index executed so far, that task)
	loopExited bool
	loopBlock  bool
	stop       chan struct{}
	wg         sync.WaitGroup
}

var st *state

func exec(param any) error {
	v := param.(int)
	st.executed = append(st.executed, v)
	st.ran[v]++
	if st.ran[v] > 1 {
		util.Fail(fmt.Sprintf("task %d executed %d times", v, st.ran[v]))
	}
	if !st.accepted[v] {
		util.Fail(fmt.Sprintf("task %d executed but never submitted", v))
	}
	// C03: high-priority requests issued by one goroutine are carried out in issue order
	if is, ok := st.hpIssue[v]; ok {
		if last, seen := st.hpLast[is[0]]; seen && last[0] > is[1] {
			util.Fail(fmt.Sprintf("C02/C03: high-priority requests of producer %d ran out of issue order: task %d (issued as its #%d) ran after task %d (its #%d)", is[0], v, is[1], last[1], last[0]))
		} else {
			st.hpLast[is[0]] = [2]int{is[1], v}
		}
	}
	if v == 0 {
		return errorx.ErrEngineShutdown
	}
	return nil
}

func waitEvent(tid int) vs.Event {
	for {
		select {
		case ev := <-vs.Events:
			if ev.Tid == tid {
				return ev
			}
			util.Fail(fmt.Sprintf("scheduler: unexpected event from thread %d while running %d", ev.Tid, tid))
		case <-time.After(10 * time.Second):
			util.Fail(fmt.Sprintf("scheduler: thread %d did not reach a scheduling point", tid))
			return vs.Event{Tid: tid, Kind: "stuck"}
		}
	}
}

func teardown() {
	if st == nil {
		return
	}
	vs.Activate(false) // everything still parked runs freely to completion
	for i, w := range st.ws {
		if i > 0 {
			close(w.ops)
		}
	}
	for _, w := range st.ws {
		select {
		case w.grant <- struct{}{}:
		default:
		}
	}
	if !st.loopExited {
		_ = st.p.Trigger(queue.HighPriority, func(any) error { return errorx.ErrEngineShutdown }, nil)
		select {
		case <-st.stop:
		case <-time.After(300 * time.Millisecond):
		}
	}
	done := make(chan struct{})
	go func(s *state) { s.wg.Wait(); close(done) }(st)
	finished := false
	select {
	case <-done:
		finished = true
	case <-time.After(300 * time.Millisecond):
		// slow (a loaded machine) or stuck (a lost wake-up): give it more time once ...
		select {
		case <-done:
			finished = true
		case <-time.After(3 * time.Second):
		}
	}
	if finished {
		_ = st.p.Close()
	}
	// ... and if its goroutines are still alive, the poller is NOT closed: they would go on using descriptor numbers
	// that the next case's poller gets (this corrupted a later case of a generator run on a heavily loaded machine
	// once: "generator of driver wake failed"). Two descriptors are leaked per such case instead.
	// drain stale events
	for {
		select {
		case <-vs.Events:
			continue
		default:
		}
		break
	}
	st = nil
}

func newState(nprod int, threshold int32) string {
	teardown()
	p, err := netpoll.OpenPoller()
	if err != nil {
		return "bad-open:" + err.Error()
	}
	st = &state{p: p, accepted: map[int]bool{}, ran: map[int]int{}, hpIssue: map[int][2]int{}, hpCount: map[int]int{}, hpLast: map[int][2]int{}, stop: make(chan struct{})}
	p.VerifSetThreshold(threshold)
	st.uq, st.lq = p.VerifQueues()
	st.ud, st.ld = queue.VerifDummy(st.uq), queue.VerifDummy(st.lq)
	vs.Activate(true)
	loop := &worker{busy: true}
	st.ws = append(st.ws, loop)
	ready := make(chan struct{})
	st.wg.Add(1)
	go func(s *state) {
		defer s.wg.Done()
		loop.grant = vs.Register(0)
		close(ready)
		_ = runPolling(s.p)
		s.loopExited = true
		vs.Done("exited")
		vs.Unregister()
		close(s.stop)
	}(st)
	<-ready
	if ev := waitEvent(0); ev.Kind != "parked" {
		return "bad-loop-start:" + ev.Kind
	}
	for i := 1; i <= nprod; i++ {
		w := &worker{ops: make(chan trig)}
		st.ws = append(st.ws, w)
		rdy := make(chan struct{})
		st.wg.Add(1)
		go func(id int, w *worker, s *state) {
			defer s.wg.Done()
			w.grant = vs.Register(id)
			close(rdy)
			for t := range w.ops {
				prio := queue.HighPriority
				if t.low {
					prio = queue.LowPriority
				}
				_ = s.p.Trigger(prio, exec, t.task)
				vs.Done("triggered")
			}
			vs.Unregister()
		}(i, w, st)
		<-rdy
	}
	return "ok"
}

func dump(out string) string {
	uh, ut, un, ul := queue.VerifDump(st.uq, st.ud)
	lh, lt, ln, ll := queue.VerifDump(st.lq, st.ld)
	return fmt.Sprintf("out=%s wc=%d u=%d,%d,%d,%d l=%d,%d,%d,%d x=%d", out, st.p.VerifWakeupCall(), uh, ut, un, ul, lh, lt, ln, ll, len(st.executed))
}

// oracle at quiescence: loop blocked, no producer in flight => every accepted task ran exactly once
func checkQuiescent() {
	for i, w := range st.ws {
		if i > 0 && w.busy {
			return
		}
	}
	if !st.loopBlock || st.loopExited {
		return
	}
	for v := range st.accepted {
		if st.ran[v] != 1 {
			util.Fail(fmt.Sprintf("lost wake-up: the loop is blocked in epoll_wait, no producer is in flight, task %d was accepted and ran %d times", v, st.ran[v]))
		}
	}
}

func step(ws []string) string {
	switch ws[0] {
	case "init":
		n, _ := strconv.Atoi(ws[1])
		th, _ := strconv.Atoi(ws[2])
		return newState(n, int32(th))
	case "start":
		tid, _ := strconv.Atoi(ws[1])
		task, _ := strconv.Atoi(ws[2])
		w := st.ws[tid]
		if tid == 0 || w.busy {
			return "bad-op"
		}
		st.accepted[task] = true
		if ws[3] != "1" && task != 0 {
			st.hpCount[tid]++
			st.hpIssue[task] = [2]int{tid, st.hpCount[tid]}
		}
		w.busy = true
		w.ops <- trig{task, ws[3] == "1"}
		if ev := waitEvent(tid); ev.Kind != "parked" {
			return "bad-start:" + ev.Kind
		}
		return "ok"
	case "step":
		tid, _ := strconv.Atoi(ws[1])
		w := st.ws[tid]
		if !w.busy || (tid == 0 && st.loopExited) {
			return dump("none")
		}
		before := len(st.executed)
		w.grant <- struct{}{}
		ev := waitEvent(tid)
		out := "none"
		st.loopBlock = false // any step may have written the eventfd: the loop has to probe again
		switch ev.Kind {
		case "done":
			if tid == 0 {
				out = "exited"
			} else {
				out = "triggered"
				w.busy = false
			}
		case "blocked":
			out = "blocked"
			st.loopBlock = true
		}
		if len(st.executed) > before && out == "none" {
			out = fmt.Sprintf("exec:%d", st.executed[len(st.executed)-1])
		}
		checkQuiescent()
		return dump(out)
	}
	return "bad-op"
}

// ------------------------------------------------------------ generation (runs the real code)

type genCase struct {
	b     strings.Builder
	progs [][]trig // per producer (index 0 unused)
}

func (g *genCase) emit(s string) string {
	fmt.Fprintln(&g.b, s)
	return step(strings.Fields(s))
}

func (g *genCase) enabled() []int {
	var out []int
	if !st.loopExited && !st.loopBlock {
		out = append(out, 0)
	}
	for i := 1; i < len(st.ws); i++ {
		if st.ws[i].busy || len(g.progs[i]) > 0 {
			out = append(out, i)
		}
	}
	return out
}

func (g *genCase) advance(tid int) {
	if tid == 0 || st.ws[tid].busy {
		g.emit(fmt.Sprintf("step %d", tid))
		return
	}
	t := g.progs[tid][0]
	g.progs[tid] = g.progs[tid][1:]
	g.emit(fmt.Sprintf("start %d %d %s", tid, t.task, util.B(t.low)))
}

func genRandom(r *util.Rng, id int, out *strings.Builder, hist map[string]int) {
	nprod := r.Pick(1, 1, 2, 2, 3, 4)
	g := &genCase{progs: make([][]trig, nprod+1)}
	next := 0
	for i := 1; i <= nprod; i++ {
		for j := 0; j < 1+r.Intn(3); j++ {
			next++
			g.progs[i] = append(g.progs[i], trig{next, r.Intn(3) == 0})
		}
	}
	if r.Intn(6) == 0 { // a shutdown sentinel somewhere
		i := 1 + r.Intn(nprod)
		g.progs[i] = append(g.progs[i], trig{0, false})
	}
	threshold := r.Pick(1024, 1024, 0, 1, 2)
	fmt.Fprintf(out, "case %d\n", id)
	g.emit(fmt.Sprintf("init %d %d", nprod, threshold))
	mode := r.Intn(3)
	hist[[]string{"uniform", "pct", "burst"}[mode]]++
	prio := r.Perm(nprod + 1)
	changes := map[int]bool{}
	for i := 0; i < r.Intn(5); i++ {
		changes[r.Intn(120)] = true
	}
	cur, burst := -1, 0
	for n := 0; n < 600; n++ {
		en := g.enabled()
		if len(en) == 0 {
			if st.loopBlock && !st.loopExited { // one more probe of the blocked loop: must stay blocked
				g.emit("step 0")
			}
			break
		}
		var tid int
		switch mode {
		case 0:
			tid = en[r.Intn(len(en))]
		case 1:
			best := -1
			for _, t := range en {
				if best == -1 || prio[t] > prio[best] {
					best = t
				}
			}
			tid = best
			if changes[n] {
				prio[tid] = -n
			}
		default:
			if burst == 0 || !contains(en, cur) {
				cur = en[r.Intn(len(en))]
				burst = 1 + r.Intn(9)
			}
			tid = cur
			burst--
		}
		g.advance(tid)
		if st.loopBlock && r.Intn(4) == 0 { // probing a blocked loop again is always allowed
			g.emit("step 0")
		}
	}
	out.WriteString(g.b.String())
}

func contains(xs []int, x int) bool {
	for _, y := range xs {
		if y == x {
			return true
		}
	}
	return false
}

// genExhaustive: every schedule of the producer programs against the loop with at most `bound` preemptions
func genExhaustive(progs [][]trig, threshold, bound int, id *int, out *strings.Builder, limit int) int {
	count := 0
	replay := func(prefix []int) *genCase {
		g := &genCase{progs: make([][]trig, len(progs))}
		for i, p := range progs {
			g.progs[i] = append([]trig{}, p...)
		}
		g.emit(fmt.Sprintf("init %d %d", len(progs)-1, threshold))
		for _, t := range prefix {
			g.advance(t)
		}
		return g
	}
	var rec func(prefix []int, pre int)
	rec = func(prefix []int, pre int) {
		if count >= limit {
			return
		}
		g := replay(prefix)
		en := g.enabled()
		if len(en) == 0 || len(prefix) > 150 {
			if st.loopBlock && !st.loopExited {
				g.emit("step 0")
			}
			fmt.Fprintf(out, "case %d\n", *id)
			*id++
			out.WriteString(g.b.String())
			count++
			return
		}
		last := -1
		if len(prefix) > 0 {
			last = prefix[len(prefix)-1]
		}
		for _, t := range en {
			np := pre
			if last != -1 && t != last && contains(en, last) {
				np++
				if np > bound {
					continue
				}
			}
			rec(append(append([]int{}, prefix...), t), np)
		}
	}
	rec(nil, 0)
	return count
}

func main() {
	mode := flag.String("mode", "exec", "gen|exec")
	seed := flag.Int64("seed", 1, "PRNG seed")
	cases := flag.Int("cases", 300, "number of random cases")
	exh := flag.Int("exhaustive", 0, "number of exhaustively enumerated schedules")
	flag.Parse()
	switch *mode {
	case "gen":
		os.Setenv("VERIF_ORACLE_OUT", os.DevNull)
		r := util.NewRng(*seed)
		var out strings.Builder
		hist := map[string]int{}
		id := 0
		for ; id < *cases; id++ {
			genRandom(r, id, &out, hist)
		}
		if *exh > 0 {
			sets := [][][]trig{
				{nil, {{1, false}}},
				{nil, {{1, false}}, {{2, false}}},
				{nil, {{1, false}, {2, false}}},
				{nil, {{1, true}}, {{2, false}}},
			}
			// every set with the production threshold (everything goes to the urgent queue) and with threshold 0
			// (low-priority requests are shunted to the second queue)
			per := *exh / (2 * len(sets))
			for i, ps := range sets {
				for _, th := range []int{1024, 0} {
					// iterative deepening on the number of preemptions: all schedules with one preemption come before
					// the (many more) schedules with two
					n := genExhaustive(ps, th, 1, &id, &out, per/2)
					n += genExhaustive(ps, th, 2, &id, &out, per-per/2)
					hist[fmt.Sprintf("exhaustive-set%d-threshold%d", i, th)] = n
				}
			}
		}
		teardown()
		os.Stdout.WriteString(out.String())
		fmt.Fprintf(os.Stderr, "DIST %v\n", hist)
	case "exec":
		util.Exec(func(string) {}, step)
		teardown()
		if util.Fails > 0 {
			os.Exit(3)
		}
	}
}
