// sharedrace: the process-wide state that the event loops share outside package gnet - the ring-buffer pool, the
// byte-slice pool, the task pool and the lock-free task queue, the elastic buffers that take from those pools - used
// the way several event loops use it (each goroutine stands for one loop and owns its buffers; only the pools and the
// queue are shared). Built with the race detector: every race report is an oracle failure of C05 (lib/vlib.py
// race_reports). No model side: the obligation this supports is Props/C05 `shared_state_atomic`.
package main

import (
	"flag"
	"fmt"
	"os"
	"strconv"
	"sync"
	"sync/atomic"

	"gnetverif/harness/util"
	"github.com/panjf2000/gnet/v2/pkg/buffer/elastic"
	"github.com/panjf2000/gnet/v2/pkg/pool/byteslice"
	"github.com/panjf2000/gnet/v2/pkg/pool/ringbuffer"
	"github.com/panjf2000/gnet/v2/pkg/queue"
)

func loops(n int, f func(k int)) {
	var wg sync.WaitGroup
	for k := 0; k < n; k++ {
		wg.Add(1)
		go func(k int) { defer wg.Done(); f(k) }(k)
	}
	wg.Wait()
}

func step(ws []string) string {
	n := 1000
	if len(ws) > 1 {
		n, _ = strconv.Atoi(ws[1])
	}
	switch ws[0] {
	case "rbpool": // every loop recycles ring buffers of its own size class through the built-in pool (calibration after 42000 Puts)
		loops(3, func(k int) {
			data := make([]byte, 64<<(2*uint(k)))
			for i := 0; i < n; i++ {
				rb := ringbuffer.Get()
				_, _ = rb.Write(data)
				_, _ = rb.Discard(len(data))
				ringbuffer.Put(rb)
			}
		})
	case "bspool":
		loops(4, func(k int) {
			for i := 0; i < n; i++ {
				b := byteslice.Get(1 + (i*37+k*1001)%70000)
				b[0] = byte(i)
				byteslice.Put(b)
			}
		})
	case "elastic": // the inbound / outbound buffers of the connections of several loops
		loops(3, func(k int) {
			var in elastic.RingBuffer
			out, _ := elastic.New(4096)
			data := make([]byte, 100+1500*k)
			sink := make([]byte, len(data))
			for i := 0; i < n; i++ {
				_, _ = in.Write(data)
				_, _ = in.Read(sink)
				if in.IsEmpty() {
					in.Done()
				}
				_, _ = out.Write(data)
				_, _ = out.Writev([][]byte{data, data})
				for !out.IsEmpty() {
					bs, _ := out.Peek(-1)
					m := 0
					for _, b := range bs {
						m += len(b)
					}
					_, _ = out.Discard(m)
				}
			}
			out.Release()
		})
	case "queue": // producers on any goroutine, one consumer (the loop), tasks from the task pool
		q := queue.NewLockFreeQueue()
		var got int64
		var done int32
		var wg sync.WaitGroup
		wg.Add(1)
		go func() {
			defer wg.Done()
			for atomic.LoadInt32(&done) == 0 || !q.IsEmpty() {
				if t := q.Dequeue(); t != nil {
					_ = t.Exec(t.Param)
					queue.PutTask(t)
					atomic.AddInt64(&got, 1)
				}
			}
		}()
		loops(4, func(k int) {
			for i := 0; i < n; i++ {
				t := queue.GetTask()
				t.Exec, t.Param = func(any) error { return nil }, k
				q.Enqueue(t)
				_ = q.Length()
			}
		})
		atomic.StoreInt32(&done, 1)
		wg.Wait()
		if got != int64(4*n) {
			util.Fail(fmt.Sprintf("C13: %d of %d tasks were dequeued", got, 4*n))
		}
	default:
		return "bad-op"
	}
	return "done"
}

func main() {
	mode := flag.String("mode", "exec", "gen|exec")
	_ = flag.Int64("seed", 1, "unused: the schedule is the Go scheduler's")
	cases := flag.Int("cases", 4, "number of cases")
	flag.Parse()
	switch *mode {
	case "gen":
		kinds := []string{"rbpool 45000", "bspool 30000", "elastic 20000", "queue 30000"}
		hist := map[string]int{}
		for i := 0; i < *cases; i++ {
			k := kinds[i%len(kinds)]
			hist[k]++
			fmt.Printf("case %d\n%s\n", i, k)
		}
		fmt.Fprintf(os.Stderr, "DIST %v\n", hist)
	case "exec":
		util.Exec(func(string) {}, step)
		if util.Fails > 0 {
			os.Exit(3)
		}
	}
}
