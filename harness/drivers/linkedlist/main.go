// Driver for C11: linkedlist.Buffer.
package main

import (
	"bytes"
	"flag"
	"fmt"
	"math"
	"os"
	"strconv"
	"strings"

	"github.com/panjf2000/gnet/v2/pkg/buffer/linkedlist"

	"gnetverif/harness/util"
)

type state struct {
	l   *linkedlist.Buffer
	ref []byte
	pos int
}

var st state

func stat() string {
	l := st.l
	if l.Buffered() != len(st.ref) {
		util.Fail(fmt.Sprintf("Buffered=%d but %d bytes are owed", l.Buffered(), len(st.ref)))
	}
	if l.IsEmpty() != (l.Buffered() == 0) {
		util.Fail(fmt.Sprintf("IsEmpty=%v with Buffered=%d", l.IsEmpty(), l.Buffered()))
	}
	if (l.Len() == 0) != (len(st.ref) == 0) || l.Len() < 0 {
		util.Fail(fmt.Sprintf("Len=%d with %d bytes owed", l.Len(), len(st.ref)))
	}
	return fmt.Sprintf(" len=%d buffered=%d empty=%s", l.Len(), l.Buffered(), util.B(l.IsEmpty()))
}

func min(a, b int) int {
	if a < b {
		return a
	}
	return b
}

func expectPrefix(what string, got []byte) {
	n := len(got)
	if n > len(st.ref) {
		util.Fail(fmt.Sprintf("%s returned %d bytes but only %d are owed", what, n, len(st.ref)))
		return
	}
	if !bytes.Equal(got, st.ref[:n]) {
		util.Fail(fmt.Sprintf("%s returned %s, owed %s", what, util.Hex(got), util.Hex(st.ref[:n])))
	}
}

func segs(bs [][]byte) string {
	if len(bs) == 0 {
		return "none"
	}
	parts := make([]string, len(bs))
	for i, b := range bs {
		parts[i] = util.Hex(b)
	}
	return strings.Join(parts, "|")
}

func flat(bs [][]byte) []byte {
	var out []byte
	for _, b := range bs {
		out = append(out, b...)
	}
	return out
}

func step(ws []string) string {
	l := st.l
	switch ws[0] {
	case "new":
		st = state{l: &linkedlist.Buffer{}}
		return "ok" + stat()
	case "pushback", "pushfront":
		p := util.UnHex(ws[1])
		orig := append([]byte{}, p...)
		if ws[0] == "pushback" {
			l.PushBack(p)
			st.ref = append(st.ref, orig...)
		} else {
			l.PushFront(p)
			st.ref = append(append([]byte{}, orig...), st.ref...)
		}
		for i := range p { // the caller reuses its slice: must not be visible (copy semantics)
			p[i] ^= 0xff
		}
		got, _ := l.Peek(-1)
		if !bytes.Equal(flat(got), st.ref) {
			util.Fail(fmt.Sprintf("%s does not copy: content %s, owed %s", ws[0], util.Hex(flat(got)), util.Hex(st.ref)))
		}
		return "ok" + stat()
	case "append":
		p := util.UnHex(ws[1])
		l.Append(p)
		st.ref = append(st.ref, p...)
		return "ok" + stat()
	case "pop":
		b := l.Pop()
		s := "nil"
		if b != nil {
			s = util.Hex(b)
			expectPrefix("Pop", b)
			st.ref = st.ref[min(len(b), len(st.ref)):]
		} else if len(st.ref) != 0 {
			util.Fail("Pop returned nil with bytes owed")
		}
		return "data=" + s + stat()
	case "read":
		n, _ := strconv.Atoi(ws[1])
		p := make([]byte, n)
		m, err := l.Read(p)
		if m != min(n, len(st.ref)) {
			util.Fail(fmt.Sprintf("Read(len %d) = %d with %d bytes owed", n, m, len(st.ref)))
		}
		expectPrefix("Read", p[:m])
		st.ref = st.ref[min(m, len(st.ref)):]
		return fmt.Sprintf("n=%d err=%s data=%s", m, util.ErrName(err, nil), util.Hex(p[:m])) + stat()
	case "peek":
		n, _ := strconv.Atoi(ws[1])
		bs, err := l.Peek(n)
		if n <= 0 || n == math.MaxInt32 {
			if err != nil || !bytes.Equal(flat(bs), st.ref) {
				util.Fail(fmt.Sprintf("Peek(all) = %s, %v; owed %s", util.Hex(flat(bs)), err, util.Hex(st.ref)))
			}
		} else if n <= len(st.ref) {
			if err != nil || !bytes.Equal(flat(bs), st.ref[:n]) {
				util.Fail(fmt.Sprintf("Peek(%d) = %s, %v; owed %s", n, util.Hex(flat(bs)), err, util.Hex(st.ref[:n])))
			}
		}
		return fmt.Sprintf("segs=%s err=%s", segs(bs), util.ErrName(err, nil)) + stat()
	case "peekwb":
		n, _ := strconv.Atoi(ws[1])
		var pre [][]byte
		if ws[2] != "none" {
			for _, h := range strings.Split(ws[2], ",") {
				pre = append(pre, util.UnHex(h))
			}
		}
		bs, err := l.PeekWithBytes(n, pre...)
		all := append(flat(pre), st.ref...)
		if n <= 0 || n == math.MaxInt32 {
			if err != nil || !bytes.Equal(flat(bs), all) {
				util.Fail(fmt.Sprintf("PeekWithBytes(all) = %s, %v; owed %s", util.Hex(flat(bs)), err, util.Hex(all)))
			}
		} else if n <= len(all) {
			if err != nil || !bytes.Equal(flat(bs), all[:n]) {
				util.Fail(fmt.Sprintf("PeekWithBytes(%d) = %s, %v; owed %s", n, util.Hex(flat(bs)), err, util.Hex(all[:n])))
			}
		}
		return fmt.Sprintf("segs=%s err=%s", segs(bs), util.ErrName(err, nil)) + stat()
	case "discard":
		n, _ := strconv.Atoi(ws[1])
		d, err := l.Discard(n)
		want := 0
		if n > 0 {
			want = min(n, len(st.ref))
		}
		if d != want {
			util.Fail(fmt.Sprintf("Discard(%d) = %d, want %d", n, d, want))
		}
		st.ref = st.ref[min(want, len(st.ref)):]
		return fmt.Sprintf("n=%d err=%s", d, util.ErrName(err, nil)) + stat()
	case "readfrom":
		start := st.pos
		r := &util.Reader{Script: util.ParseScript(ws[1]), Pos: &st.pos}
		n, err := l.ReadFrom(r)
		for i := 0; i < r.Delivered; i++ {
			st.ref = append(st.ref, util.Fresh(start+i))
		}
		if int(n) != r.Delivered {
			util.Fail(fmt.Sprintf("ReadFrom reported %d, reader delivered %d", n, r.Delivered))
		}
		return fmt.Sprintf("n=%d err=%s", n, util.ErrName(err, nil)) + stat()
	case "writeto":
		w := &util.Writer{Script: util.ParseScript(ws[1])}
		n, err := l.WriteTo(w)
		if int(n) != len(w.Sink) {
			util.Fail(fmt.Sprintf("WriteTo reported %d, writer accepted %d", n, len(w.Sink)))
		}
		expectPrefix("WriteTo", w.Sink)
		st.ref = st.ref[min(len(w.Sink), len(st.ref)):]
		if err == nil && len(st.ref) != 0 {
			util.Fail("WriteTo returned nil with bytes left")
		}
		return fmt.Sprintf("n=%d err=%s sink=%s", n, util.ErrName(err, nil), util.Hex(w.Sink)) + stat()
	case "reset":
		l.Reset()
		st.ref = nil
		return "ok" + stat()
	}
	return "bad-op"
}

// ------------------------------------------------------------ generation

type gen struct {
	r    *util.Rng
	ctr  int
	out  *strings.Builder
	l    *linkedlist.Buffer
	pos  int
	hist map[string]int
}

func (g *gen) payload(n int) []byte {
	p := make([]byte, n)
	for i := range p {
		g.ctr++
		p[i] = byte((g.ctr*7 + 3) % 256)
	}
	return p
}

func (g *gen) size(big bool) int {
	b := g.l.Buffered()
	cands := []int{0, 1, 2, 3, 5, 7, b - 1, b, b + 1, g.r.Intn(12), g.r.Intn(40)}
	if big {
		cands = append(cands, 511, 512, 513, 1023, 1025, g.r.Intn(1500))
	}
	n := cands[g.r.Intn(len(cands))]
	if n < 0 {
		n = 0
	}
	return n
}

func (g *gen) script(isReader, big bool) []util.Step {
	var s []util.Step
	n := 1 + g.r.Intn(3)
	eof := util.ParseScript("0:eof")[0].Err
	for i := 0; i < n; i++ {
		k := g.size(big)
		if g.r.Intn(3) == 0 {
			k = 1 << 30
		}
		if isReader && !big && k > 20 {
			k = g.r.Intn(20)
		}
		var err error
		if i == n-1 || g.r.Intn(6) == 0 {
			switch g.r.Intn(4) {
			case 0:
				err = util.ErrOther{Tag: 1}
			case 1:
				if isReader {
					err = util.ErrOther{Tag: 2}
				}
			default:
				if isReader {
					err = eof
				}
			}
		}
		s = append(s, util.Step{K: k, Err: err})
		if err != nil {
			break
		}
	}
	return s
}

func (g *gen) emit(op string) {
	ws := strings.Fields(op)
	g.hist[ws[0]]++
	fmt.Fprintln(g.out, op)
	defer func() { _ = recover() }()
	l := g.l
	switch ws[0] {
	case "pushback":
		l.PushBack(util.UnHex(ws[1]))
	case "pushfront":
		l.PushFront(util.UnHex(ws[1]))
	case "append":
		l.Append(util.UnHex(ws[1]))
	case "pop":
		l.Pop()
	case "read":
		n, _ := strconv.Atoi(ws[1])
		_, _ = l.Read(make([]byte, n))
	case "discard":
		n, _ := strconv.Atoi(ws[1])
		_, _ = l.Discard(n)
	case "readfrom":
		_, _ = l.ReadFrom(&util.Reader{Script: util.ParseScript(ws[1]), Pos: &g.pos})
	case "writeto":
		_, _ = l.WriteTo(&util.Writer{Script: util.ParseScript(ws[1])})
	case "reset":
		l.Reset()
	}
}

func (g *gen) genCase(id int, big bool) {
	fmt.Fprintf(g.out, "case %d\nnew\n", id)
	g.l = &linkedlist.Buffer{}
	g.pos = 0
	g.hist["new"]++
	nops := 4 + g.r.Intn(30)
	weights := []int{16, 8, 8, 6, 14, 8, 6, 8, 6, 7, 2}
	for i := 0; i < nops; i++ {
		switch g.r.Weighted(weights) {
		case 0:
			g.emit("pushback " + util.Hex(g.payload(g.size(big))))
		case 1:
			g.emit("pushfront " + util.Hex(g.payload(g.size(big))))
		case 2:
			g.emit("append " + util.Hex(g.payload(g.size(big))))
		case 3:
			g.emit("pop")
		case 4:
			g.emit(fmt.Sprintf("read %d", g.size(big)))
		case 5:
			n := g.size(big)
			switch g.r.Intn(8) {
			case 0:
				n = -g.r.Intn(3)
			case 1:
				n = math.MaxInt32
			}
			g.emit(fmt.Sprintf("peek %d", n))
		case 6:
			n := g.size(big) + g.r.Intn(6)
			if g.r.Intn(6) == 0 {
				n = -g.r.Intn(2)
			}
			k := g.r.Intn(4)
			pre := "none"
			if k > 0 {
				parts := make([]string, k)
				for j := range parts {
					parts[j] = util.Hex(g.payload(g.r.Intn(5)))
				}
				pre = strings.Join(parts, ",")
			}
			g.emit(fmt.Sprintf("peekwb %d %s", n, pre))
		case 7:
			n := g.size(big)
			if g.r.Intn(8) == 0 {
				n = -g.r.Intn(3)
			}
			g.emit(fmt.Sprintf("discard %d", n))
		case 8:
			g.emit("readfrom " + util.ScriptString(g.script(true, big)))
		case 9:
			g.emit("writeto " + util.ScriptString(g.script(false, big)))
		case 10:
			g.emit("reset")
		}
	}
}

func main() {
	mode := flag.String("mode", "exec", "gen|exec")
	seed := flag.Int64("seed", 1, "PRNG seed")
	cases := flag.Int("cases", 1000, "number of cases")
	flag.Parse()
	switch *mode {
	case "gen":
		g := &gen{r: util.NewRng(*seed), out: &strings.Builder{}, hist: map[string]int{}}
		for i := 0; i < *cases; i++ {
			g.genCase(i, i%6 == 5)
			if g.out.Len() > 1<<20 {
				os.Stdout.WriteString(g.out.String())
				g.out.Reset()
			}
		}
		os.Stdout.WriteString(g.out.String())
		fmt.Fprintf(os.Stderr, "DIST %v\n", g.hist)
	case "exec":
		util.Exec(func(string) { st = state{l: &linkedlist.Buffer{}} }, step)
		if util.Fails > 0 {
			os.Exit(3)
		}
	}
}
