// Driver for C15: the three load-balancing policies of load_balancer.go.
package main

import (
	"flag"
	"fmt"
	"os"
	"strconv"
	"strings"

	gnet "github.com/panjf2000/gnet/v2"

	"gnetverif/harness/util"
)

type state struct {
	kind   string
	lb     *gnet.VerifLB
	n      int
	calls  uint64 // rr: value of the counter before the next call
	counts []int32
	seen   map[string]int // hash: address -> loop
	hist   []int          // rr: loops chosen since the counter was last set
}

var st state

func atoi(s string) int { n, _ := strconv.Atoi(s); return n }

func step(ws []string) string {
	switch ws[0] {
	case "newlb":
		n := atoi(ws[2])
		st = state{kind: ws[1], lb: gnet.NewVerifLB(ws[1], n), n: n, counts: make([]int32, n), seen: map[string]int{}}
		return fmt.Sprintf("ok len=%d", st.lb.Len())
	case "setrr":
		v, _ := strconv.ParseUint(ws[1], 10, 64)
		st.lb.SetRR(v)
		st.calls = v
		st.hist = nil
		return "ok"
	case "addcount":
		i, d := atoi(ws[1]), atoi(ws[2])
		st.lb.AddCount(i, int32(d))
		st.counts[i] += int32(d)
		return fmt.Sprintf("count=%d", st.lb.Count(i))
	case "lcrun": // k accepts in a row, each counted on the loop the balancer chose (what eventloop.register does)
		k := atoi(ws[1])
		spread := func() int32 {
			lo, hi := st.counts[0], st.counts[0]
			for _, c := range st.counts {
				if c < lo {
					lo = c
				}
				if c > hi {
					hi = c
				}
			}
			return hi - lo
		}
		before := spread()
		for j := 0; j < k; j++ {
			idx := -1
			func() {
				defer func() {
					if r := recover(); r != nil {
						util.Fail(fmt.Sprintf("next with %d loops panicked: %v", st.n, r))
					}
				}()
				idx = st.lb.Next("")
			}()
			if idx < 0 || idx >= st.n {
				util.Fail(fmt.Sprintf("next returned something that is not a registered loop (%d)", idx))
				return fmt.Sprintf("idx=%d", idx)
			}
			st.lb.AddCount(idx, 1)
			st.counts[idx]++
		}
		if after := spread(); st.kind == "lc" && before <= 1 && after > 1 {
			util.Fail(fmt.Sprintf("least connections: loops were within one connection of each other, after %d accepts they are %d apart", k, after))
		}
		parts := make([]string, st.n)
		for i := range parts {
			parts[i] = strconv.Itoa(int(st.lb.Count(i)))
		}
		return "counts=[" + strings.Join(parts, ", ") + "]"
	case "next":
		addr := string(util.UnHex(ws[1]))
		idx := -1
		func() {
			defer func() {
				if r := recover(); r != nil {
					util.Fail(fmt.Sprintf("next(%q) with %d loops panicked: %v", addr, st.n, r))
				}
			}()
			idx = st.lb.Next(addr)
		}()
		if idx < 0 || idx >= st.n {
			util.Fail(fmt.Sprintf("next(%q) returned something that is not a registered loop (%d)", addr, idx))
			return fmt.Sprintf("idx=%d", idx)
		}
		switch st.kind {
		case "rr":
			// cyclic: the first n assignments go to n different loops, assignment k+n goes where assignment k went
			// (which loop comes first is the implementation's business; the model pins that down, not this oracle)
			if h := st.hist; len(h) >= st.n {
				if idx != h[len(h)-st.n] {
					util.Fail(fmt.Sprintf("round robin: assignment %d went to loop %d, assignment %d before it to loop %d (n=%d)", len(h), idx, st.n, h[len(h)-st.n], st.n))
				}
			} else {
				for _, j := range h {
					if j == idx {
						util.Fail(fmt.Sprintf("round robin: loop %d got a second connection before all %d loops had one", idx, st.n))
					}
				}
			}
			st.hist = append(st.hist, idx)
			st.calls++
			if st.calls == 0 { // the 64-bit counter wrapped (test hook setrr): the cycle restarts
				st.hist = nil
			}
		case "lc":
			for i, c := range st.counts {
				if c < st.counts[idx] {
					util.Fail(fmt.Sprintf("least connections chose loop %d (%d conns) although loop %d has %d", idx, st.counts[idx], i, c))
					break
				}
			}
		default:
			if prev, ok := st.seen[addr]; ok && prev != idx {
				util.Fail(fmt.Sprintf("source hash: %q went to loop %d before and %d now", addr, prev, idx))
			}
			st.seen[addr] = idx
			// which pure function is used is the implementation's business (the Lean model pins it to crc32 mod n)
		}
		return fmt.Sprintf("idx=%d", idx)
	}
	return "bad-op"
}

func addrOf(r *util.Rng) string {
	switch r.Intn(7) {
	case 0:
		return ""
	case 1:
		return fmt.Sprintf("%d.%d.%d.%d:%d", r.Intn(256), r.Intn(256), r.Intn(256), r.Intn(256), r.Intn(65536))
	case 2:
		return fmt.Sprintf("[fe80::%x:%x%%eth%d]:%d", r.Intn(65536), r.Intn(65536), r.Intn(3), r.Intn(65536))
	case 3:
		return fmt.Sprintf("[2001:db8::%x]:%d", r.Intn(65536), r.Intn(65536))
	case 4:
		return fmt.Sprintf("/tmp/sock-%d.sock", r.Intn(50))
	case 5:
		return "@abstract" + strconv.Itoa(r.Intn(5))
	}
	b := make([]byte, r.Intn(20))
	for i := range b {
		b[i] = byte(r.Intn(256))
	}
	return string(b)
}

// addresses whose CRC-32 sits on the boundaries of the int conversions inside hash()
var crcBoundary = []string{
	"10.11.0.30:7612",    // 0x80000000
	"10.13.5.40:8143",    // 0x00000000
	"10.11.17.246:59516", // 0x80000001
	"10.1.23.52:62215",   // 0x7fffffff
	"10.11.49.232:26968", // 0xffffffff
}

func main() {
	mode := flag.String("mode", "exec", "gen|exec")
	seed := flag.Int64("seed", 1, "PRNG seed")
	cases := flag.Int("cases", 1000, "number of cases")
	flag.Parse()
	switch *mode {
	case "gen":
		r := util.NewRng(*seed)
		var b strings.Builder
		hist := map[string]int{}
		for c := 0; c < *cases; c++ {
			kind := []string{"rr", "lc", "hash"}[c%3]
			n := r.Pick(1, 2, 3, 4, 7, 8, 16, 255, 256, 1+r.Intn(256))
			fmt.Fprintf(&b, "case %d\nnewlb %s %d\n", c, kind, n)
			hist[kind]++
			if kind == "rr" && r.Intn(3) == 0 { // near the wrap-around of the uint64 counter
				if r.Intn(2) == 0 {
					fmt.Fprintf(&b, "setrr %d\n", ^uint64(0)-uint64(r.Intn(5)))
				} else { // a long-running server: the counter has passed 2^32 - nothing may change there
					fmt.Fprintf(&b, "setrr %d\n", uint64(1)<<32-uint64(1+r.Intn(5)))
				}
			}
			counts := make([]int, n)
			var addrs []string
			nops := 5 + r.Intn(40)
			if kind == "rr" && r.Intn(4) == 0 {
				nops = n*r.Pick(1, 2, 3) + r.Intn(3)
			}
			if kind == "lc" && r.Intn(3) == 0 { // a fresh engine taking a burst of accepts
				k := r.Pick(0, 1, n-1, n, n+1, 2*n+1, r.Intn(3*n+2))
				fmt.Fprintf(&b, "lcrun %d\n", k)
				hist["lcrun-fresh"]++
			}
			for i := 0; i < nops; i++ {
				switch {
				case kind == "lc" && r.Intn(6) == 0: // a burst of accepts from whatever the counts are now
					fmt.Fprintf(&b, "lcrun %d\n", r.Intn(n+3))
					hist["lcrun"]++
				case kind == "lc" && r.Intn(2) == 0: // accepts and closes change the counts
					j := r.Intn(n)
					d := 1
					if counts[j] > 0 && r.Intn(3) == 0 {
						d = -1
					}
					if r.Intn(10) == 0 {
						d = r.Intn(5)
					}
					counts[j] += d
					fmt.Fprintf(&b, "addcount %d %d\n", j, d)
				default:
					a := addrOf(r)
					if r.Intn(8) == 0 {
						a = crcBoundary[r.Intn(len(crcBoundary))]
					}
					if len(addrs) > 0 && r.Intn(3) == 0 {
						a = addrs[r.Intn(len(addrs))]
					}
					addrs = append(addrs, a)
					fmt.Fprintf(&b, "next %s\n", util.Hex([]byte(a)))
				}
			}
		}
		os.Stdout.WriteString(b.String())
		fmt.Fprintf(os.Stderr, "DIST %v\n", hist)
	case "exec":
		util.Exec(func(string) {}, step)
		if util.Fails > 0 {
			os.Exit(3)
		}
	}
}
