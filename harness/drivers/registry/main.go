// Driver for C14: the connection registry (conn_map.go by default, conn_matrix.go with gc_opt).
package main

import (
	"flag"
	"fmt"
	"os"
	"sort"
	"strconv"
	"strings"

	gnet "github.com/panjf2000/gnet/v2"

	"gnetverif/harness/util"
)

type state struct {
	reg   *gnet.VerifRegistry
	ref   map[int]int // oracle: fd -> id of the live connection
	fdOf  map[int]int
	isMap bool
}

var st state

func atoi(s string) int { n, _ := strconv.Atoi(s); return n }

func ids(l []int, sorted bool) string {
	if len(l) == 0 {
		return "none"
	}
	l = append([]int{}, l...)
	if sorted {
		sort.Ints(l)
	}
	parts := make([]string, len(l))
	for i, x := range l {
		parts[i] = strconv.Itoa(x)
	}
	return strings.Join(parts, ",")
}

func checkAll() {
	if st.reg.Count() != len(st.ref) {
		util.Fail(fmt.Sprintf("count=%d but %d connections are live", st.reg.Count(), len(st.ref)))
	}
	n := 0
	for fd, id := range st.ref { // spot-check lookups of live descriptors (all of them when few)
		if g := st.reg.Get(fd); g != id {
			util.Fail(fmt.Sprintf("lookup(%d) = %d, registered connection is %d", fd, g, id))
		}
		if n++; n > 64 {
			break
		}
	}
}

func tail() string {
	r, c := st.reg.Cursor()
	return fmt.Sprintf(" count=%d cursor=%d,%d", st.reg.Count(), r, c)
}

func step(ws []string) string {
	switch ws[0] {
	case "newmatrix", "newmap":
		st = state{reg: gnet.NewVerifRegistry(), ref: map[int]int{}, fdOf: map[int]int{}, isMap: ws[0] == "newmap"}
		if ws[0] == "newmap" {
			return "ok"
		}
		r, c := gnet.VerifDims()
		return fmt.Sprintf("ok rows=%d cols=%d", r, c)
	case "conn":
		st.reg.NewConn(atoi(ws[1]), atoi(ws[2]))
		st.fdOf[atoi(ws[1])] = atoi(ws[2])
		return "ok"
	case "add":
		id := atoi(ws[1])
		st.reg.Add(id, atoi(ws[2]))
		st.ref[st.fdOf[id]] = id
		checkAll()
		return "ok" + tail()
	case "del":
		id := atoi(ws[1])
		st.reg.Del(id)
		if st.ref[st.fdOf[id]] == id {
			delete(st.ref, st.fdOf[id])
		}
		if g := st.reg.Get(st.fdOf[id]); g == id {
			util.Fail(fmt.Sprintf("lookup(%d) still yields the removed connection %d", st.fdOf[id], id))
		}
		checkAll()
		return "ok" + tail()
	case "get":
		fd := atoi(ws[1])
		g := st.reg.Get(fd)
		want, ok := st.ref[fd]
		if !ok {
			want = -1
		}
		if g != want {
			util.Fail(fmt.Sprintf("lookup(%d) = %d, want %d", fd, g, want))
		}
		return fmt.Sprintf("id=%d", g)
	case "count":
		checkAll()
		return fmt.Sprintf("count=%d", st.reg.Count())
	case "iter":
		del, stop := ws[1] == "1", atoi(ws[2])
		before := map[int]bool{}
		for _, id := range st.ref {
			before[id] = true
		}
		got := st.reg.Iterate(del, stop)
		seen := map[int]bool{}
		for _, id := range got {
			if seen[id] {
				util.Fail(fmt.Sprintf("iteration visited connection %d twice", id))
			}
			if !before[id] {
				util.Fail(fmt.Sprintf("iteration visited %d which is not live", id))
			}
			seen[id] = true
			if del {
				delete(st.ref, st.fdOf[id])
			}
		}
		if stop == 0 && len(seen) != len(before) {
			util.Fail(fmt.Sprintf("iteration visited %d of %d live connections", len(seen), len(before)))
		}
		if del && stop == 0 {
			if st.reg.Count() != 0 {
				util.Fail(fmt.Sprintf("registry not empty after removing every visited connection: count=%d", st.reg.Count()))
			}
			for id := range before {
				if st.reg.Get(st.fdOf[id]) != -1 {
					util.Fail(fmt.Sprintf("lookup(%d) succeeds after the registry was emptied", st.fdOf[id]))
				}
			}
		}
		checkAll()
		return "ids=" + ids(got, st.isMap) + tail()
	case "gfd":
		fd, _, row, col := st.reg.GFDOf(atoi(ws[1]))
		return fmt.Sprintf("fd=%d row=%d col=%d", fd, row, col)
	}
	return "bad-op"
}

// ------------------------------------------------------------ generation

type gen struct {
	r        *util.Rng
	out      *strings.Builder
	nextID   int
	live     []int       // ids currently registered
	fdOf     map[int]int // id -> fd
	liveFd   map[int]bool
	freed    []int // recently removed descriptor numbers
	hist     map[string]int
	capacity int
}

func (g *gen) emit(s string) {
	g.hist[strings.Fields(s)[0]]++
	fmt.Fprintln(g.out, s)
}

func (g *gen) add(el int) {
	if g.capacity > 0 && len(g.live) >= g.capacity { // a full matrix drops registrations (16.7M connections in the real build)
		return
	}
	var fd int
	if len(g.freed) > 0 && g.r.Intn(2) == 0 { // re-register a just-removed descriptor number
		fd = g.freed[len(g.freed)-1]
		g.freed = g.freed[:len(g.freed)-1]
	} else {
		for {
			fd = g.r.Pick(3+g.r.Intn(40), 3+g.r.Intn(100000), g.r.Intn(1<<31))
			if !g.liveFd[fd] {
				break
			}
		}
	}
	if g.liveFd[fd] {
		return
	}
	id := g.nextID
	g.nextID++
	g.fdOf[id] = fd
	g.liveFd[fd] = true
	g.live = append(g.live, id)
	g.emit(fmt.Sprintf("conn %d %d", id, fd))
	g.emit(fmt.Sprintf("add %d %d", id, el))
}

func (g *gen) del(i int) {
	id := g.live[i]
	g.live = append(g.live[:i], g.live[i+1:]...)
	delete(g.liveFd, g.fdOf[id])
	g.freed = append(g.freed, g.fdOf[id])
	g.emit(fmt.Sprintf("del %d", id))
}

func (g *gen) genCase(id int, kind string, rows, cols int, big bool) {
	fmt.Fprintf(g.out, "case %d\n", id)
	if kind == "map" {
		g.emit("newmap")
	} else {
		g.emit(fmt.Sprintf("newmatrix %d %d", rows, cols))
	}
	g.nextID, g.live, g.fdOf, g.liveFd, g.freed = 0, nil, map[int]int{}, map[int]bool{}, nil
	g.capacity = 0
	if kind != "map" {
		g.capacity = rows * cols
	}
	el := g.r.Intn(256)
	nops := 6 + g.r.Intn(40)
	if big {
		// cross the row boundary: fill more than one row, then churn
		n := cols + 1 + g.r.Intn(3)
		if g.r.Intn(2) == 0 {
			n = 2*cols + g.r.Intn(3)
		}
		for i := 0; i < n; i++ {
			g.add(el)
		}
		nops = 10 + g.r.Intn(30)
	}
	weights := []int{30, 22, 14, 4, 6, 3, 6}
	for i := 0; i < nops; i++ {
		switch g.r.Weighted(weights) {
		case 0:
			g.add(el)
		case 1:
			if len(g.live) > 0 {
				switch g.r.Intn(4) {
				case 0:
					g.del(0) // first
				case 1:
					g.del(len(g.live) - 1) // last
				default:
					g.del(g.r.Intn(len(g.live)))
				}
			}
		case 2:
			fd := g.r.Intn(50)
			if len(g.live) > 0 && g.r.Intn(3) != 0 {
				fd = g.fdOf[g.live[g.r.Intn(len(g.live))]]
			} else if len(g.freed) > 0 && g.r.Intn(2) == 0 {
				fd = g.freed[g.r.Intn(len(g.freed))]
			}
			g.emit(fmt.Sprintf("get %d", fd))
		case 3:
			g.emit("count")
		case 4:
			stop := g.r.Pick(0, 0, 0, 1, 2, 5)
			if kind == "map" { // map order is the runtime's choice: a partial visit is not predictable
				stop = 0
			}
			g.emit(fmt.Sprintf("iter 0 %d", stop))
		case 5:
			g.emit("iter 1 0") // the shutdown pattern: remove each visited connection
			for _, id := range g.live {
				delete(g.liveFd, g.fdOf[id])
			}
			g.live = nil
		case 6:
			if g.nextID > 0 {
				g.emit(fmt.Sprintf("gfd %d", g.r.Intn(g.nextID)))
			}
		}
	}
	g.emit("count")
	g.emit("iter 0 0")
}

func main() {
	mode := flag.String("mode", "exec", "gen|exec")
	seed := flag.Int64("seed", 1, "PRNG seed")
	cases := flag.Int("cases", 1000, "number of cases")
	kind := flag.String("kind", "map", "map|matrix")
	bigEvery := flag.Int("bigevery", 5, "every n-th case crosses the row boundary")
	flag.Parse()
	switch *mode {
	case "gen":
		rows, cols := gnet.VerifDims()
		g := &gen{r: util.NewRng(*seed), out: &strings.Builder{}, hist: map[string]int{}}
		for i := 0; i < *cases; i++ {
			g.genCase(i, *kind, rows, cols, *bigEvery > 0 && i%*bigEvery == *bigEvery-1)
			if g.out.Len() > 1<<20 {
				os.Stdout.WriteString(g.out.String())
				g.out.Reset()
			}
		}
		os.Stdout.WriteString(g.out.String())
		fmt.Fprintf(os.Stderr, "DIST %v rows=%d cols=%d\n", g.hist, rows, cols)
	case "exec":
		util.Exec(func(string) {}, step)
		if util.Fails > 0 {
			os.Exit(3)
		}
	}
}
