//go:build handover

// Hand-over accounting (tie of Model/Handover.lean): the driver is built against instrumented copies of
// connection_unix.go / eventloop_unix.go that log, in one global order,
//
//	enter newStreamConn <fd> <loop>      the acceptor (or an enrolment) created a connection for loop <loop>
//	enter register0 <fd> <loop>          loop <loop> registered it (OnOpen follows)
//	enter close <fd> <loop>              el.close was entered for it
//	enter closeConns <loop>              loop <loop> left Polling
//
// (each with the id of the calling goroutine). The life's reply carries the canonical event list (A = hand-over by an
// acceptor, N = enrolment by a Register call, E, C, X), the number of connected sockets that stayed open and the number
// of accepted Register calls that were never answered.
package main

import (
	"fmt"
	"strconv"
	"strings"
	"sync"
	"sync/atomic"

	"golang.org/x/sys/unix"

	vsys "github.com/panjf2000/gnet/v2/pkg/verifsys"

	"gnetverif/harness/util"
)

var hoMu sync.Mutex
var hoEvents []string
var hoSeq map[int]int // real descriptor number -> sequence number of the connection that currently owns it
var hoNext int

var hoAcceptors map[string]bool

func hoStart() {
	hoMu.Lock()
	hoEvents, hoSeq, hoNext, hoAcceptors = nil, map[int]int{}, 0, map[string]bool{}
	hoMu.Unlock()
	vsys.LogGoid = true
	vsys.Set(func(rec string) {
		f := strings.Fields(rec)
		if len(f) >= 3 && f[0] == "sys" && f[1] == "accept" && strings.Contains(rec, "err=EBADF") {
			// C07: the acceptor called accept(2) on a descriptor number that is not an open listener any more
			util.Fail("C07: accept(2) on a listener descriptor the framework has already closed (EBADF): " + rec)
			return
		}
		if len(f) < 3 || f[0] != "enter" {
			return
		}
		hoMu.Lock()
		defer hoMu.Unlock()
		g := ""
		if last := f[len(f)-1]; strings.HasPrefix(last, "g=") {
			g = last
			f = f[:len(f)-1]
		}
		switch f[1] {
		case "accept0", "accept": // the goroutines that accept: the main reactor, or every loop in SO_REUSEPORT mode
			hoAcceptors[g] = true
		case "newStreamConn":
			fd, _ := strconv.Atoi(f[2])
			hoSeq[fd] = hoNext
			kind := "N" // created by a Register / Enroll call (some other goroutine)
			if hoAcceptors[g] {
				kind = "A" // created by an acceptor
			}
			hoEvents = append(hoEvents, fmt.Sprintf("%s:%s:%d", kind, f[3], hoNext))
			hoNext++
		case "register0":
			fd, _ := strconv.Atoi(f[2])
			if k, ok := hoSeq[fd]; ok {
				hoEvents = append(hoEvents, fmt.Sprintf("E:%s:%d", f[3], k))
			}
		case "close":
			fd, _ := strconv.Atoi(f[2])
			if k, ok := hoSeq[fd]; ok {
				hoEvents = append(hoEvents, fmt.Sprintf("C:%s:%d", f[3], k))
			}
		case "closeConns":
			hoEvents = append(hoEvents, "X:"+f[2])
		}
	}, func(call string, fd int) vsys.Directive {
		if call == "dup" && atomic.CompareAndSwapInt32(&hoDupFault, 1, 0) {
			return vsys.Directive{Kind: "errno", Errno: unix.EMFILE}
		}
		return vsys.Directive{}
	})
}

var hoDupFault int32

// hoArmDupFault makes the next dup(2) the framework issues fail with EMFILE (descriptor exhaustion at the moment a
// connection is enrolled); false = this build cannot inject faults
func hoArmDupFault() bool {
	atomic.StoreInt32(&hoDupFault, 1)
	return true
}

// hoReport: the event list and the number of leaked connected sockets (counted by the caller)
func hoReport(leakedSockets, unanswered int) string {
	vsys.Set(nil, nil)
	hoMu.Lock()
	defer hoMu.Unlock()
	if len(hoEvents) == 0 {
		return fmt.Sprintf(" | ho leaked=%d unanswered=%d", leakedSockets, unanswered)
	}
	return fmt.Sprintf(" | ho leaked=%d unanswered=%d %s", leakedSockets, unanswered, strings.Join(hoEvents, " "))
}
