//go:build !handover

package main

func hoStart()                                      {}
func hoReport(leakedSockets, unanswered int) string { return "" }
func hoArmDupFault() bool                           { return false }
