//go:build !handover

package main

func hoStart()                          {}
func hoReport(leakedSockets int) string { return "" }
func hoArmDupFault() bool               { return false }
