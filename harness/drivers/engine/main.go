// Driver for C06 / C19 (and the runtime halves of C05, C15, C17): the REAL engine through its
// public API, free running. One op = one scenario (an engine life). The reply is the coarse
// trace of that life (callbacks in global order, API probe results per engine state, when
// Run returned); the Lean engine model accepts it, the oracles check the properties.
package main

import (
	"context"
	"errors"
	"flag"
	"fmt"
	"net"
	"os"
	"sort"
	"strconv"
	"strings"
	"sync"
	"sync/atomic"
	"time"

	gnet "github.com/panjf2000/gnet/v2"
	errorx "github.com/panjf2000/gnet/v2/pkg/errors"

	"gnetverif/harness/util"
)

type event struct {
	seq  int64
	kind string // boot open traffic close tick shutdown runreturn api
	arg  string
	gid  int64
}

type scenario struct {
	proto     string
	loops     int
	reuseport bool
	ticker    bool
	nconn     int
	source    string // engstop | pkgstop | open | traffic | close | tick | boot | ctxexpired | twice
	et        bool
	lb        int
}

type server struct {
	gnet.BuiltinEventEngine
	sc            scenario
	mu            sync.Mutex
	evs           []event
	seq           int64
	eng           gnet.Engine
	booted        chan struct{}
	opened        map[string]int
	closed        map[string]int
	loopOf        map[string]int64 // connection -> goroutine id of its callbacks
	remote        map[string]string
	shutdown      int32
	returned      int32
	afterRet      int32
	trigger       int32  // the scenario's shutdown-by-action has fired
	slowed        int32  // slowclose: one OnClose of the shutdown has been delayed
	closeBeg      int32  // OnClose callbacks entered
	closeEnd      int32  // OnClose callbacks completed
	stopping      int32  // the driver has called Stop
	regUnanswered int32  // accepted Register calls that got no result
	lnNet         string // network and address of one listener, as DupListener wants them
	lnAddr        string
	inCB          map[int64]int32
	active        map[any][2]int64 // event loop -> (goroutine running a callback of it, nesting depth)
}

func goid() int64 {
	var buf [64]byte
	n := runtimeStack(buf[:])
	f := strings.Fields(string(buf[:n]))
	id, _ := strconv.ParseInt(f[1], 10, 64)
	return id
}

func (s *server) log(kind, arg string) {
	s.mu.Lock()
	s.seq++
	s.evs = append(s.evs, event{s.seq, kind, arg, goid()})
	if atomic.LoadInt32(&s.returned) == 1 && kind != "api" && kind != "runreturn" {
		atomic.StoreInt32(&s.afterRet, 1)
	}
	s.mu.Unlock()
}

// key: a unique id stored in the connection's context by OnOpen (pointers may be reused after a close)
var connSeq int64

func key(c gnet.Conn) string {
	if id, ok := c.Context().(int64); ok {
		return fmt.Sprintf("k%d", id)
	}
	return fmt.Sprintf("%p", c)
}

// confinement (C05): all callbacks of one connection run on one goroutine; callbacks of one loop never run on two
// goroutines at once (a callback nested in another one on the same goroutine - OnClose inside a handler that calls
// EventLoop.Close - is not an overlap)
func (s *server) enter(c gnet.Conn) func() {
	g := goid()
	var loop any
	s.mu.Lock()
	if c != nil {
		k := key(c)
		if prev, ok := s.loopOf[k]; ok && prev != g {
			util.Fail(fmt.Sprintf("C05: callbacks of one connection ran on goroutines %d and %d", prev, g))
		}
		s.loopOf[k] = g
		loop = c.EventLoop()
		if loop != nil {
			if s.active == nil {
				s.active = map[any][2]int64{}
			}
			a := s.active[loop]
			if a[1] > 0 && a[0] != g {
				util.Fail(fmt.Sprintf("C05: callbacks of one event loop overlap on goroutines %d and %d", a[0], g))
			}
			s.active[loop] = [2]int64{g, a[1] + 1}
		}
	}
	s.mu.Unlock()
	return func() {
		s.mu.Lock()
		if loop != nil {
			a := s.active[loop]
			s.active[loop] = [2]int64{a[0], a[1] - 1}
		}
		s.mu.Unlock()
	}
}

func (s *server) OnBoot(eng gnet.Engine) gnet.Action {
	s.eng = eng
	s.log("boot", "")
	// API probes while booting (the handle exists, the loops are not registered yet)
	s.probe("booting")
	defer close(s.booted)
	if hammer { // C05: the concurrency-safe API from foreign goroutines, from the earliest possible moment
		go func() {
			for i := 0; atomic.LoadInt32(&s.returned) == 0; i++ {
				_ = eng.CountConnections()
				_ = eng.Validate()
				if fd, err := eng.Dup(); err == nil {
					_ = closeFd(fd)
				}
				if i%8 == 0 && hammerAddr != nil {
					if ch, err := eng.Register(gnet.NewNetAddrContext(context.Background(), hammerAddr)); err == nil {
						go func() {
							select {
							case r := <-ch:
								if r.Conn != nil {
									_ = r.Conn.Close()
								}
							case <-time.After(2 * time.Second):
							}
						}()
					}
				}
				time.Sleep(20 * time.Microsecond)
			}
		}()
	}
	if s.sc.source == "boot" {
		return gnet.Shutdown
	}
	return gnet.None
}

func (s *server) OnShutdown(gnet.Engine) {
	atomic.AddInt32(&s.shutdown, 1)
	s.log("shutdown", "")
}

func (s *server) OnOpen(c gnet.Conn) ([]byte, gnet.Action) {
	c.SetContext(atomic.AddInt64(&connSeq, 1))
	defer s.enter(c)()
	s.mu.Lock()
	s.opened[key(c)]++
	if c.RemoteAddr() != nil {
		s.remote[key(c)] = c.RemoteAddr().String()
	}
	s.mu.Unlock()
	s.log("open", key(c))
	if hammer {
		k := key(c)
		go func() {
			for i := 0; i < 20 && atomic.LoadInt32(&s.returned) == 0; i++ {
				_ = c.AsyncWrite([]byte("a"), nil)
				_ = c.Wake(nil)
				c.SetSafeContext(i)
				_ = c.SafeContext()
				_ = c.Fd()
				_ = c.SetNoDelay(true)
				if fd, err := c.Dup(); err == nil {
					_ = closeFd(fd)
				}
				_ = c.EventLoop().Execute(context.Background(), runnable{})
				time.Sleep(50 * time.Microsecond)
			}
			if k[len(k)-1]%2 == 0 {
				_ = c.Close()
			}
		}()
	}
	if s.sc.source == "open" && atomic.CompareAndSwapInt32(&s.trigger, 0, 1) {
		return nil, gnet.Shutdown
	}
	return []byte("hi"), gnet.None
}

func (s *server) OnTraffic(c gnet.Conn) gnet.Action {
	defer s.enter(c)()
	k := key(c)
	s.log("traffic", k) // logged on entry: a failing Write below closes the connection (OnClose) inside this callback
	b, _ := c.Next(-1)
	s.mu.Lock()
	want := s.remote[k]
	s.mu.Unlock()
	// C17 runtime half: the address reported now is the one reported at OnOpen
	if c.RemoteAddr() != nil && want != "" && c.RemoteAddr().String() != want {
		util.Fail(fmt.Sprintf("C17: RemoteAddr changed from %s to %s during the life of a connection", want, c.RemoteAddr()))
	}
	_, _ = c.Write(b)
	if s.sc.source == "traffic" && atomic.CompareAndSwapInt32(&s.trigger, 0, 1) {
		return gnet.Shutdown
	}
	if s.sc.source == "closetraffic" && atomic.CompareAndSwapInt32(&s.trigger, 0, 1) {
		_ = c.EventLoop().Close(c) // the handler closes its own connection synchronously and then asks for shutdown
		return gnet.Shutdown
	}
	return gnet.None
}

func (s *server) OnClose(c gnet.Conn, err error) gnet.Action {
	defer s.enter(c)()
	atomic.AddInt32(&s.closeBeg, 1)
	defer atomic.AddInt32(&s.closeEnd, 1)
	if s.sc.source == "slowclose" && atomic.LoadInt32(&s.stopping) == 1 && atomic.CompareAndSwapInt32(&s.slowed, 0, 1) {
		defer time.Sleep(700 * time.Millisecond) // a shutdown that takes longer than Stop's polling interval
	}
	s.mu.Lock()
	s.closed[key(c)]++
	s.mu.Unlock()
	s.log("close", key(c))
	if s.sc.source == "close" && atomic.CompareAndSwapInt32(&s.trigger, 0, 1) {
		return gnet.Shutdown
	}
	return gnet.None
}

func (s *server) OnTick() (time.Duration, gnet.Action) {
	s.log("tick", "")
	s.mu.Lock()
	nopen := len(s.opened)
	s.mu.Unlock()
	if s.sc.source == "tick" && nopen >= s.sc.nconn && atomic.CompareAndSwapInt32(&s.trigger, 0, 1) {
		return 5 * time.Millisecond, gnet.Shutdown
	}
	return 5 * time.Millisecond, gnet.None
}

func errStr(err error) string {
	switch {
	case err == nil:
		return "nil"
	case errors.Is(err, errorx.ErrEmptyEngine):
		return "empty"
	case errors.Is(err, errorx.ErrEngineInShutdown):
		return "inshutdown"
	case errors.Is(err, errorx.ErrInvalidNetworkAddress):
		return "invalidaddr"
	case errors.Is(err, errorx.ErrNilRunnable):
		return "nilrunnable"
	case errors.Is(err, errorx.ErrUnsupportedOp):
		return "unsupported"
	case errors.Is(err, context.DeadlineExceeded), errors.Is(err, context.Canceled):
		return "ctx"
	}
	return "other"
}

// probe calls the control API on the given handle and logs the results for engine state `st`
func probeEngine(log func(kind, arg string), st string, eng gnet.Engine, lnNet, lnAddr string) {
	if fd, err := eng.DupListener(lnNet, lnAddr); true {
		if err == nil {
			_ = closeFd(fd)
		}
		log("api", fmt.Sprintf("%s duplistener-known %s", st, errStr(err)))
	}
	log("api", fmt.Sprintf("%s validate %s", st, errStr(eng.Validate())))
	n := eng.CountConnections()
	cs := "n"
	if n == -1 {
		cs = "-1"
	}
	log("api", fmt.Sprintf("%s count %s", st, cs))
	fd, err := eng.Dup()
	if err == nil {
		_ = closeFd(fd)
	}
	log("api", fmt.Sprintf("%s dup %s", st, errStr(err)))
	_, err = eng.Register(context.Background()) // context without target
	log("api", fmt.Sprintf("%s register-notarget %s", st, errStr(err)))
	fd, err = eng.DupListener("nosuch", "nosuch")
	if err == nil {
		_ = closeFd(fd)
	}
	log("api", fmt.Sprintf("%s duplistener-unknown %s", st, errStr(err)))
}

func (s *server) probe(st string) { probeEngine(s.log, st, s.eng, s.lnNet, s.lnAddr) }

var sockSeq int
var hammer = os.Getenv("VERIF_HAMMER") == "1"
var hammerAddr net.Addr

func init() {
	if !hammer {
		return
	}
	// a throw-away TCP server as the target of Register calls
	l, err := net.Listen("tcp", "127.0.0.1:0")
	if err != nil {
		return
	}
	hammerAddr = l.Addr()
	go func() {
		for {
			c, err := l.Accept()
			if err != nil {
				return
			}
			go func() { time.Sleep(50 * time.Millisecond); c.Close() }()
		}
	}()
}

type runnable struct{}

func (runnable) Run(context.Context) error { return nil }

// quiet swallows the framework's log output (it would go to stdout)
type quiet struct{}

func (quiet) Debugf(string, ...any) {}
func (quiet) Infof(string, ...any)  {}
func (quiet) Warnf(string, ...any)  {}
func (quiet) Errorf(string, ...any) {}
func (quiet) Fatalf(string, ...any) {}

func runScenario(sc scenario) string {
	s := &server{sc: sc, booted: make(chan struct{}), opened: map[string]int{}, closed: map[string]int{}, loopOf: map[string]int64{},
		remote: map[string]string{}, inCB: map[int64]int32{}}
	base, baseTab := countFds(), fdTable()
	hoStart()
	// C19: a handle that was never started
	probeEngine(s.log, "never", gnet.Engine{}, "tcp", "127.0.0.1:1")
	sockSeq++
	addr, sockPath := "", ""
	dial := func() (net.Conn, error) { return nil, nil }
	var addrs []string
	switch sc.proto {
	case "unix":
		path := fmt.Sprintf("%s/gnetverif-eng-%d-%d.sock", os.TempDir(), os.Getpid(), sockSeq)
		addr = "unix://" + path
		sockPath = path
		s.lnNet, s.lnAddr = "unix", path
		dial = func() (net.Conn, error) { return net.DialTimeout("unix", path, time.Second) }
		defer os.Remove(path)
	case "both": // Rotate: one engine, a TCP and a Unix-domain listener
		path := fmt.Sprintf("%s/gnetverif-eng-%d-%d.sock", os.TempDir(), os.Getpid(), sockSeq)
		l, _ := net.Listen("tcp", "127.0.0.1:0")
		port := l.Addr().(*net.TCPAddr).Port
		_ = l.Close()
		addr = fmt.Sprintf("tcp://127.0.0.1:%d", port)
		addrs = []string{addr, "unix://" + path}
		sockPath = path
		s.lnNet, s.lnAddr = "unix", path
		turn := 0
		dial = func() (net.Conn, error) {
			turn++
			if turn%2 == 0 {
				return net.DialTimeout("unix", path, time.Second)
			}
			return net.DialTimeout("tcp", fmt.Sprintf("127.0.0.1:%d", port), time.Second)
		}
		defer os.Remove(path)
	default:
		l, _ := net.Listen("tcp", "127.0.0.1:0")
		port := l.Addr().(*net.TCPAddr).Port
		_ = l.Close()
		addr = fmt.Sprintf("tcp://127.0.0.1:%d", port)
		s.lnNet, s.lnAddr = "tcp", fmt.Sprintf("127.0.0.1:%d", port)
		dial = func() (net.Conn, error) {
			return net.DialTimeout("tcp", fmt.Sprintf("127.0.0.1:%d", port), time.Second)
		}
	}
	opts := []gnet.Option{gnet.WithLogger(quiet{}), gnet.WithNumEventLoop(sc.loops), gnet.WithReusePort(sc.reuseport), gnet.WithTicker(sc.ticker),
		gnet.WithEdgeTriggeredIO(sc.et), gnet.WithLoadBalancing(gnet.LoadBalancing(sc.lb))}
	done := make(chan error, 1)
	t0 := time.Now()
	go func() {
		var err error
		if addrs != nil {
			err = gnet.Rotate(s, addrs, opts...)
		} else {
			err = gnet.Run(s, addr, opts...)
		}
		atomic.StoreInt32(&s.returned, 1)
		s.log("runreturn", errStr(err))
		done <- err
	}()
	select {
	case <-s.booted:
	case err := <-done:
		select {
		case <-s.booted: // OnBoot asked for shutdown: Run has returned already, both channels were ready
			done <- err
		default:
			return "result=run-failed-early:" + errStr(err)
		}
	case <-time.After(5 * time.Second):
		return "result=no-boot"
	}
	var peers []net.Conn
	if sc.source != "boot" {
		time.Sleep(20 * time.Millisecond) // let the loops start
		for i := 0; i < sc.nconn; i++ {
			c, err := dial()
			if err != nil {
				break
			}
			peers = append(peers, c)
			_, _ = c.Write([]byte("ping"))
		}
		time.Sleep(time.Duration(5+sockSeq%20) * time.Millisecond)
		switch sc.source { // only where the driver itself decides when the shutdown starts is the phase known
		case "engstop", "pkgstop", "ctxexpired", "twice", "regrace":
			s.probe("running")
		}
		// C19: Register/Enroll deliver exactly one result per call (while the engine keeps running)
		if sc.source == "engstop" || sc.source == "twice" {
			if a, err := net.ResolveTCPAddr("tcp", "127.0.0.1:1"); err == nil && sc.proto == "tcp" {
				ch, err := s.eng.Register(gnet.NewNetAddrContext(context.Background(), a))
				if err == nil {
					n := 0
					tm := time.After(3 * time.Second)
				recv:
					for {
						select {
						case _, ok := <-ch:
							if !ok {
								break recv
							}
							n++
						case <-tm:
							break recv
						}
					}
					if n != 1 {
						util.Fail(fmt.Sprintf("C19: Register delivered %d results", n))
					}
					s.log("api", fmt.Sprintf("running register-result %d", n))
				}
			}
		}
		// C19: a registration that meets descriptor exhaustion (dup(2) fails) delivers exactly one result, an error or a
		// usable connection - never "success" with a dead one
		if (sc.source == "engstop" || sc.source == "pkgstop") && sc.proto != "unix" && hoArmDupFault() {
			if tl, err := net.Listen("tcp", "127.0.0.1:0"); err == nil {
				go func() {
					if c, err := tl.Accept(); err == nil {
						time.Sleep(300 * time.Millisecond)
						_ = c.Close()
					}
				}()
				ch, err := s.eng.Register(gnet.NewNetAddrContext(context.Background(), tl.Addr()))
				if err == nil {
					select {
					case r := <-ch:
						if r.Err == nil && (r.Conn == nil || r.Conn.Fd() < 0 || r.Conn.RemoteAddr() == nil) {
							util.Fail("C19: Register reported success but delivered an unusable connection although dup(2) had failed")
						}
						if r.Err == nil && r.Conn != nil {
							_ = r.Conn.Close()
						}
					case <-time.After(3 * time.Second):
						util.Fail("C19: Register delivered no result within 3 s after dup(2) failed")
					}
				}
				_ = tl.Close()
			}
		}
		// close one peer before the shutdown so that a peer-induced OnClose is in the trace
		if len(peers) > 1 {
			_ = peers[0].Close()
			time.Sleep(5 * time.Millisecond)
		}
		if sc.source == "close" && len(peers) > 0 {
			_ = peers[len(peers)-1].Close()
		}
		if sc.source == "traffic" || sc.source == "closetraffic" {
			for _, p := range peers {
				_, _ = p.Write([]byte("x"))
			}
		}
	}
	// C07: a descriptor handed to the user by Dup / DupListener is the user's: it must survive the shutdown
	keptFd := -1
	if sc.source != "boot" {
		if fd, err := s.eng.DupListener(s.lnNet, s.lnAddr); err == nil {
			keptFd = fd
		}
	}
	stopRes := "-"
	var regWG sync.WaitGroup
	if sc.source == "regrace" {
		// Register calls racing with the shutdown: every accepted call must deliver exactly one result
		tl, err := net.Listen("tcp", "127.0.0.1:0")
		if err == nil {
			defer tl.Close()
			go func() {
				for {
					c, err := tl.Accept()
					if err != nil {
						return
					}
					go func() { time.Sleep(200 * time.Millisecond); c.Close() }()
				}
			}()
			for i := 0; i < 6; i++ {
				regWG.Add(1)
				go func(i int) {
					defer regWG.Done()
					time.Sleep(time.Duration(i) * 300 * time.Microsecond)
					ch, err := s.eng.Register(gnet.NewNetAddrContext(context.Background(), tl.Addr()))
					if err != nil {
						return // refused: fine
					}
					n := 0
					tm := time.After(4 * time.Second)
					for {
						select {
						case _, ok := <-ch:
							if !ok {
								if n != 1 {
									util.Fail(fmt.Sprintf("C19: an accepted Register call delivered %d results before its channel was closed", n))
								}
								return
							}
							n++
						case <-tm:
							atomic.AddInt32(&s.regUnanswered, 1)
							util.Fail(fmt.Sprintf("C19: an accepted Register call delivered no result within 4 s (shutdown raced with the registration), results so far %d", n))
							return
						}
					}
				}(i)
			}
			time.Sleep(time.Duration(sockSeq%5) * 400 * time.Microsecond)
			stopRes = errStr(s.eng.Stop(context.Background()))
		}
	}
	// C19: whenever a Stop call returns, nil or in-shutdown, the shutdown must be complete
	complete := func(what string) {
		b, e := atomic.LoadInt32(&s.closeBeg), atomic.LoadInt32(&s.closeEnd)
		s.mu.Lock()
		open := 0
		for k, n := range s.opened {
			if n == 1 && s.closed[k] == 0 {
				open++
			}
		}
		s.mu.Unlock()
		if b != e || open > 0 {
			util.Fail(fmt.Sprintf("C19: %s although the shutdown was not complete: %d OnClose callbacks still running, %d opened connections without OnClose", what, b-e, open))
		}
	}
	switch sc.source {
	case "slowclose":
		atomic.StoreInt32(&s.stopping, 1)
		second := make(chan string, 1)
		go func() { // a second Stop in the middle of the shutdown
			time.Sleep(250 * time.Millisecond)
			r := errStr(s.eng.Stop(context.Background()))
			complete("a second Stop issued during the shutdown returned " + r)
			second <- r
		}()
		stopRes = errStr(s.eng.Stop(context.Background()))
		if stopRes == "nil" {
			complete("Stop returned nil")
		}
		select {
		case <-second:
		case <-time.After(5 * time.Second):
			util.Fail("C19: a second Stop issued during the shutdown did not return within 5 s")
		}
	case "stormstop":
		// connections keep arriving while the engine shuts down: the acceptor is busy when the listeners go away
		stormDone := make(chan struct{})
		var stormConns []net.Conn
		var stormMu sync.Mutex
		go func() {
			defer close(stormDone)
			for atomic.LoadInt32(&s.returned) == 0 {
				if c, err := dial(); err == nil && c != nil {
					stormMu.Lock()
					stormConns = append(stormConns, c)
					stormMu.Unlock()
				}
				time.Sleep(150 * time.Microsecond)
			}
		}()
		time.Sleep(3 * time.Millisecond)
		stopRes = errStr(s.eng.Stop(context.Background()))
		if stopRes == "nil" {
			complete("Stop returned nil")
		}
		<-stormDone
		stormMu.Lock()
		peers = append(peers, stormConns...)
		stormMu.Unlock()
	case "engstop":
		stopRes = errStr(s.eng.Stop(context.Background()))
		if stopRes == "nil" {
			complete("Stop returned nil")
		}
	case "pkgstop":
		stopRes = errStr(gnet.Stop(context.Background(), addr))
	case "ctxexpired":
		ctx, cancel := context.WithTimeout(context.Background(), time.Millisecond)
		stopRes = errStr(s.eng.Stop(ctx))
		cancel()
	case "twice":
		r1 := errStr(s.eng.Stop(context.Background()))
		r2 := errStr(s.eng.Stop(context.Background()))
		stopRes = r1 + "," + r2
	}
	var runErr error
	select {
	case runErr = <-done:
	case <-time.After(10 * time.Second):
		util.Fail(fmt.Sprintf("C06: Run did not return within 10 s after shutdown was requested (%s)", sc.source))
		return "result=hang stop=" + stopRes
	}
	regWG.Wait()
	elapsed := time.Since(t0)
	for _, p := range peers {
		_ = p.Close()
	}
	time.Sleep(30 * time.Millisecond) // anything that still runs would log now
	s.probe("down")
	if sc.source != "boot" {
		r := errStr(s.eng.Stop(context.Background()))
		s.log("api", "down stop "+r)
	}
	// ---- oracles
	if keptFd >= 0 {
		if !fdOpen(keptFd) {
			util.Fail("C07: a descriptor handed to the user by DupListener was closed by the framework during shutdown")
		} else {
			_ = closeFd(keptFd)
		}
	}
	// C07: descriptors the engine created are closed and the Unix-socket file is removed when Run returns
	ho := ""
	if !hammer && base > 0 {
		var now int
		if !settle(2*time.Second, func() bool { now = countFds(); return now <= base }) && sc.source != "regrace" {
			util.Fail(fmt.Sprintf("C07: %d descriptors are open after Run returned and all peers closed, %d before the engine started (%s): leaked %s", now, base, sc.source, newFds(baseTab)))
		}
		ho = hoReport(strings.Count(newFds(baseTab), "socket(connected"), int(atomic.LoadInt32(&s.regUnanswered)))
	} else {
		hoReport(0, 0)
	}
	if sockPath != "" {
		if _, err := os.Stat(sockPath); err == nil {
			util.Fail("C07: the Unix-socket file still exists after Run returned")
		}
	}
	if runErr != nil {
		util.Fail(fmt.Sprintf("C06: Run returned %v", runErr))
	}
	if atomic.LoadInt32(&s.afterRet) == 1 {
		util.Fail("C06: a callback ran after Run returned")
	}
	want := int32(1)
	if sc.source == "boot" {
		want = 0
	}
	if atomic.LoadInt32(&s.shutdown) != want {
		util.Fail(fmt.Sprintf("C06: OnShutdown ran %d times", s.shutdown))
	}
	s.mu.Lock()
	for k, n := range s.opened {
		if n != 1 || s.closed[k] != 1 {
			util.Fail(fmt.Sprintf("C04/C06: a connection saw OnOpen %d times and OnClose %d times by the time Run returned", n, s.closed[k]))
		}
	}
	for k := range s.closed {
		if s.opened[k] != 1 {
			util.Fail("C04: OnClose without OnOpen")
		}
	}
	evs := append([]event{}, s.evs...)
	s.mu.Unlock()
	sort.Slice(evs, func(i, j int) bool { return evs[i].seq < evs[j].seq })
	// canonical trace: connection pointers -> c1.. in order of first appearance
	names := map[string]string{}
	var parts []string
	for _, e := range evs {
		a := e.arg
		if e.kind == "open" || e.kind == "traffic" || e.kind == "close" {
			if _, ok := names[a]; !ok {
				names[a] = fmt.Sprintf("c%d", len(names)+1)
			}
			a = names[a]
		}
		if e.kind == "tick" {
			continue // ticks are frequent; their order constraint (none after runreturn) is checked above
		}
		if a == "" {
			parts = append(parts, e.kind)
		} else {
			parts = append(parts, e.kind+":"+strings.ReplaceAll(a, " ", "_"))
		}
	}
	_ = elapsed
	return fmt.Sprintf("result=ok stop=%s | %s%s", stopRes, strings.Join(parts, " "), ho)
}

// hammer <mode> <rounds>: the drain-and-abort protocol on the real functions (overlay hook VerifDrainHammer).
// Record: "result=ok handed=<h> aborted=<a> left=<l> open=<o> unanswered=<u>"; the model (Model/Drain.lean, theorem
// quiescent_all_settled) predicts aborted = handed and nothing left, since nobody runs tasks here.
func hammerFail(f string, a ...any) { util.Fail(fmt.Sprintf(f, a...)) }

func runHammer(mode, rounds string) string {
	n, _ := strconv.Atoi(rounds)
	if r, w, e := os.Pipe(); e == nil { // the Go runtime opens its own epoll and event descriptors on first use: before counting
		r.Close()
		w.Close()
	}
	if warm, e := gnet.VerifDrainHammer(mode, 1); e != nil || warm.Left+warm.Open+warm.Unanswered > 0 {
		// (the worker pool and everything else that is created once is created here; a failure is found again below)
		_ = warm
	}
	before := countFds()
	res, err := gnet.VerifDrainHammer(mode, n)
	if err != nil {
		return "result=error " + strings.ReplaceAll(err.Error(), " ", "_")
	}
	if res.Left > 0 {
		hammerFail("C07: drain protocol (%s): a registration was still in the task queue of the event loop after the loop had closed its connections and the hand-over had returned (round %d): its descriptor is never closed", mode, res.Rounds)
	}
	if res.Open > 0 {
		hammerFail("C07: drain protocol (%s): the descriptor handed over in round %d was neither registered nor closed", mode, res.Rounds)
	}
	if res.Unanswered > 0 {
		hammerFail("C19: drain protocol (%s): the registration of round %d never got its result", mode, res.Rounds)
	}
	if res.Errors > 0 {
		hammerFail("C07: drain protocol (%s): %d rounds ended with an unexpected result", mode, res.Errors)
	}
	if res.Left == 0 && res.Open == 0 && res.Unanswered == 0 {
		time.Sleep(20 * time.Millisecond)
		if after := countFds(); after > before {
			hammerFail("C07: drain protocol (%s): %d descriptors more are open after the rounds than before", mode, after-before)
		}
	}
	return fmt.Sprintf("result=ok handed=%d aborted=%d left=%d open=%d unanswered=%d", res.Handed, res.Aborted, res.Left, res.Open, res.Unanswered)
}

func step(ws []string) string {
	if ws[0] == "clife" {
		return runClientLife(ws) + " @@="
	}
	if ws[0] == "hammer" && len(ws) == 3 {
		return runHammer(ws[1], ws[2]) + " @@="
	}
	if ws[0] != "life" {
		return "bad-op"
	}
	// life <proto> <loops> <reuseport> <ticker> <nconn> <source> <et> <lb>
	atoi := func(s string) int { n, _ := strconv.Atoi(s); return n }
	sc := scenario{proto: ws[1], loops: atoi(ws[2]), reuseport: ws[3] == "1", ticker: ws[4] == "1", nconn: atoi(ws[5]), source: ws[6], et: ws[7] == "1", lb: atoi(ws[8])}
	return runScenario(sc) + " @@="
}

func main() {
	mode := flag.String("mode", "exec", "gen|exec")
	seed := flag.Int64("seed", 1, "PRNG seed")
	cases := flag.Int("cases", 40, "number of engine lives")
	only := flag.String("only", "", "generate only client lives of this mode (e.g. zone)")
	flag.Parse()
	switch *mode {
	case "gen":
		r := util.NewRng(*seed)
		var b strings.Builder
		hist := map[string]int{}
		if *only == "hammer" {
			for i := 0; i < *cases; i++ {
				m := []string{"loop", "accept0", "enroll", "enrollctx"}[i%4]
				rounds := map[string]int{"loop": 1500000, "accept0": 200000, "enroll": 100000, "enrollctx": 100000}[m]
				hist["hammer-"+m]++
				fmt.Fprintf(&b, "case %d\nhammer %s %d\n", i, m, rounds)
			}
			os.Stdout.WriteString(b.String())
			fmt.Fprintf(os.Stderr, "DIST %v\n", hist)
			return
		}
		if *only != "" {
			for i := 0; i < *cases; i++ {
				m, proto := *only, "tcp"
				if m == "all" { // client lives of every mode
					m = []string{"stop", "peerclose", "localclose", "wake", "zone", "slowtick", "openclose"}[i%7]
					if m != "zone" {
						proto = []string{"tcp", "unix", "udp"}[r.Intn(3)]
					}
					if m == "openclose" {
						proto = "udp"
					}
				}
				hist["client-"+m]++
				fmt.Fprintf(&b, "case %d\nclife %s %d %d %d %s %d\n", i, proto, r.Pick(1, 2, 4), r.Intn(2), r.Pick(2, 3, 5), m, r.Intn(2))
			}
			os.Stdout.WriteString(b.String())
			fmt.Fprintf(os.Stderr, "DIST %v\n", hist)
			return
		}
		sources := []string{"engstop", "pkgstop", "open", "traffic", "close", "tick", "boot", "ctxexpired", "twice", "regrace", "slowclose", "closetraffic", "stormstop"}
		for i := 0; i < *cases; i++ {
			src := sources[i%len(sources)]
			ticker := r.Intn(2)
			if src == "tick" {
				ticker = 1
			}
			nconn := r.Pick(0, 1, 2, 3, 5)
			if src == "open" || src == "traffic" || src == "close" || src == "slowclose" || src == "closetraffic" {
				nconn = r.Pick(1, 2, 3, 5)
			}
			hist[src]++
			fmt.Fprintf(&b, "case %d\nlife %s %d %d %d %d %s %d %d\n", i, []string{"unix", "tcp", "tcp", "both"}[r.Intn(4)], r.Pick(1, 2, 4), r.Intn(2), ticker, nconn, src, r.Intn(2), r.Intn(3))
		}
		// client lives
		modes := []string{"stop", "peerclose", "localclose", "wake", "zone", "slowtick", "openclose"}
		for i := 0; i < *cases/2; i++ {
			m := modes[i%len(modes)]
			proto := []string{"tcp", "unix", "udp"}[r.Intn(3)]
			hist["client-"+m]++
			nconn := r.Pick(0, 1, 2, 3, 5)
			if m == "zone" {
				proto, nconn = "tcp", r.Pick(2, 3)
			}
			if m == "openclose" {
				proto, nconn = "udp", r.Pick(1, 2, 3)
			}
			fmt.Fprintf(&b, "case %d\nclife %s %d %d %d %s %d\n", *cases+i, proto, r.Pick(1, 2, 4), r.Intn(2), nconn, m, r.Intn(2))
		}
		os.Stdout.WriteString(b.String())
		fmt.Fprintf(os.Stderr, "DIST %v\n", hist)
	case "exec":
		util.Exec(func(string) {}, step)
		if util.Fails > 0 {
			os.Exit(3)
		}
	}
}
