package main

import (
	"runtime"

	"golang.org/x/sys/unix"
)

func runtimeStack(b []byte) int { return runtime.Stack(b, false) }
func closeFd(fd int) error      { return unix.Close(fd) }
