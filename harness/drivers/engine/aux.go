package main

import (
	"fmt"
	"os"
	"runtime"

	"golang.org/x/sys/unix"
)

func runtimeStack(b []byte) int { return runtime.Stack(b, false) }
func closeFd(fd int) error      { return unix.Close(fd) }

// sockRole describes a leaked socket: listening / connected (accepted or dialled) and its family
func sockRole(fd int) string {
	role := ""
	if v, err := unix.GetsockoptInt(fd, unix.SOL_SOCKET, unix.SO_ACCEPTCONN); err == nil && v == 1 {
		role = "(listening)"
	} else if pn, err := unix.Getpeername(fd); err == nil {
		role = "(connected)"
		if os.Getenv("VERIF_FD_DEBUG") == "1" {
			ln, _ := unix.Getsockname(fd)
			role = fmt.Sprintf("(connected local=%+v peer=%+v)", ln, pn)
		}
	} else {
		role = "(unconnected)"
	}
	return role
}

// fdOpen: the descriptor number still refers to an open file
func fdOpen(fd int) bool {
	_, err := unix.FcntlInt(uintptr(fd), unix.F_GETFD, 0)
	return err == nil
}
