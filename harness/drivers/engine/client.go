// Client lives: the REAL gnet.Client through its public API against a plain Go peer.
// op:  clife <proto tcp|unix|udp> <loops> <ticker> <nconn> <mode> <et>
// mode: stop       - Client.Stop with all connections still open
//
//	peerclose  - the peer closes every second connection first
//	localclose - the driver calls Close() on every second connection first
//	wake       - Wake on a quiet connection must give exactly one OnTraffic
//
// The reply is the coarse trace (same tokens as server lives; Stop returning = runreturn).
package main

import (
	"bytes"
	"fmt"
	"net"
	"os"
	"sort"
	"strings"
	"sync"
	"sync/atomic"
	"time"

	gnet "github.com/panjf2000/gnet/v2"
	"github.com/panjf2000/gnet/v2/pkg/pool/byteslice"

	"gnetverif/harness/util"
)

type chandler struct {
	*server
	recv     map[string][]byte
	traffic  map[string]int
	closeErr map[string]bool // OnClose err != nil
	inTick   int32           // OnTick callbacks executing right now
	slowTick bool
	// mode openclose: OnOpen closes its connection (EventLoop.Close), opens an unrelated socket - which gets the
	// descriptor number that has just become free - and still returns a reply
	openClose  bool
	victimAddr string
	victims    []net.Conn
}

func (h *chandler) OnBoot(eng gnet.Engine) gnet.Action {
	h.eng = eng
	h.log("boot", "")
	close(h.booted)
	return gnet.None
}

func (h *chandler) OnOpen(c gnet.Conn) ([]byte, gnet.Action) {
	c.SetContext(atomic.AddInt64(&connSeq, 1))
	defer h.enter(c)()
	h.mu.Lock()
	h.opened[key(c)]++
	h.mu.Unlock()
	h.log("open", key(c))
	if h.openClose {
		_ = c.EventLoop().Close(c)
		if v, err := net.Dial("udp", h.victimAddr); err == nil {
			h.mu.Lock()
			h.victims = append(h.victims, v)
			h.mu.Unlock()
		}
	}
	return []byte("hi"), gnet.None
}

func (h *chandler) OnTraffic(c gnet.Conn) gnet.Action {
	defer h.enter(c)()
	b, _ := c.Next(-1)
	h.mu.Lock()
	if h.closed[key(c)] > 0 {
		util.Fail("C04: OnTraffic after OnClose on a client connection")
	}
	h.recv[key(c)] = append(h.recv[key(c)], b...)
	h.traffic[key(c)]++
	h.mu.Unlock()
	h.log("traffic", key(c))
	return gnet.None
}

func (h *chandler) OnClose(c gnet.Conn, err error) gnet.Action {
	defer h.enter(c)()
	h.mu.Lock()
	h.closed[key(c)]++
	h.closeErr[key(c)] = err != nil
	h.mu.Unlock()
	h.log("close", key(c))
	return gnet.None
}

func (h *chandler) OnTick() (time.Duration, gnet.Action) {
	atomic.AddInt32(&h.inTick, 1)
	defer atomic.AddInt32(&h.inTick, -1)
	h.log("tick", "") // not part of the trace, but a tick after Stop returned is a callback after the end (C06)
	if h.slowTick {
		time.Sleep(30 * time.Millisecond) // Stop will almost certainly be called while a tick is running
	}
	return 5 * time.Millisecond, gnet.None
}

// linkLocal: an IPv6 link-local address of this host with its zone, if there is one
func linkLocal() (string, bool) {
	ifs, _ := net.Interfaces()
	for _, ifi := range ifs {
		if ifi.Flags&net.FlagUp == 0 {
			continue
		}
		as, _ := ifi.Addrs()
		for _, a := range as {
			if n, ok := a.(*net.IPNet); ok && n.IP.To4() == nil && n.IP.IsLinkLocalUnicast() {
				return n.IP.String() + "%" + ifi.Name, true
			}
		}
	}
	return "", false
}

func countFds() int {
	n := 0
	for _, t := range fdTable() {
		if !strings.HasSuffix(t, ".oracle") { // the oracle report file of this driver
			n++
		}
	}
	return n
}

// fdTable: descriptor -> what it refers to
func fdTable() map[string]string {
	m := map[string]string{}
	d, _ := os.ReadDir("/proc/self/fd")
	for _, e := range d {
		t, err := os.Readlink("/proc/self/fd/" + e.Name())
		if err == nil {
			m[e.Name()] = t
		}
	}
	return m
}

// newFds lists the descriptors open now that were not open in `before` (by number and target)
func newFds(before map[string]string) string {
	var out []string
	for fd, t := range fdTable() {
		if before[fd] != t && !strings.HasSuffix(t, ".oracle") {
			if i := strings.Index(t, ":["); i >= 0 {
				t = t[:i] // socket:[12345] -> socket
			}
			if t == "socket" {
				t += sockRole(atoiFd(fd))
			}
			out = append(out, t)
		}
	}
	sort.Strings(out)
	return strings.Join(out, ",")
}

func atoiFd(s string) int { var n int; fmt.Sscan(s, &n); return n }

// settle waits until cond holds (at most d)
func settle(d time.Duration, cond func() bool) bool {
	end := time.Now().Add(d)
	for {
		if cond() {
			return true
		}
		if time.Now().After(end) {
			return false
		}
		time.Sleep(2 * time.Millisecond)
	}
}

// peer: a plain Go endpoint that records what it receives and sends scripted data
type peerConn struct {
	c    net.Conn
	mu   sync.Mutex
	got  []byte
	sent []byte
	eof  bool
}

type peer struct {
	mu    sync.Mutex
	conns []*peerConn
	ln    net.Listener
	pc    net.PacketConn
	from  map[string]*peerConn // udp: by source address
}

func (p *peer) serve() {
	for {
		c, err := p.ln.Accept()
		if err != nil {
			return
		}
		pc := &peerConn{c: c}
		p.mu.Lock()
		p.conns = append(p.conns, pc)
		p.mu.Unlock()
		go func() {
			buf := make([]byte, 4096)
			for {
				n, err := c.Read(buf)
				pc.mu.Lock()
				pc.got = append(pc.got, buf[:n]...)
				if err != nil {
					pc.eof = true
				}
				pc.mu.Unlock()
				if err != nil {
					return
				}
			}
		}()
	}
}

func (p *peer) serveUDP() {
	buf := make([]byte, 65536)
	for {
		n, from, err := p.pc.ReadFrom(buf)
		if err != nil {
			return
		}
		p.mu.Lock()
		pc := p.from[from.String()]
		if pc == nil {
			pc = &peerConn{}
			p.from[from.String()] = pc
			p.conns = append(p.conns, pc)
		}
		p.mu.Unlock()
		pc.mu.Lock()
		pc.got = append(pc.got, buf[:n]...)
		pc.mu.Unlock()
		// answer every datagram except the greeting with one datagram
		if string(buf[:n]) != "hi" {
			reply := append([]byte("re:"), buf[:n]...)
			_, _ = p.pc.WriteTo(reply, from)
		}
	}
}

func runClientLife(ws []string) string {
	atoi := func(s string) int { var n int; fmt.Sscan(s, &n); return n }
	proto, loops, ticker, nconn, mode, et := ws[1], atoi(ws[2]), ws[3] == "1", atoi(ws[4]), ws[5], ws[6] == "1"
	base, baseTab := countFds(), fdTable()
	sockSeq++
	p := &peer{from: map[string]*peerConn{}}
	var network, address string
	switch proto {
	case "unix":
		path := fmt.Sprintf("%s/gnetverif-cli-%d-%d.sock", os.TempDir(), os.Getpid(), sockSeq)
		l, err := net.Listen("unix", path)
		if err != nil {
			return "result=peer-listen-failed"
		}
		p.ln, network, address = l, "unix", path
		defer os.Remove(path)
		go p.serve()
	case "udp":
		pc, err := net.ListenPacket("udp", "127.0.0.1:0")
		if err != nil {
			return "result=peer-listen-failed"
		}
		p.pc, network, address = pc, "udp", pc.LocalAddr().String()
		go p.serveUDP()
	default:
		l, err := net.Listen("tcp", "127.0.0.1:0")
		if mode == "zone" { // a link-local IPv6 peer: the addresses of the connections carry a zone
			if ll, ok := linkLocal(); ok {
				if l6, err6 := net.Listen("tcp6", "["+ll+"]:0"); err6 == nil {
					if l != nil {
						_ = l.Close()
					}
					l, err = l6, nil
				}
			}
		}
		if err != nil {
			return "result=peer-listen-failed"
		}
		p.ln, network, address = l, l.Addr().Network(), l.Addr().String()
		go p.serve()
	}
	s := &server{sc: scenario{source: "client"}, booted: make(chan struct{}), opened: map[string]int{}, closed: map[string]int{}, loopOf: map[string]int64{},
		remote: map[string]string{}, inCB: map[int64]int32{}}
	h := &chandler{server: s, recv: map[string][]byte{}, traffic: map[string]int{}, closeErr: map[string]bool{}, slowTick: mode == "slowtick"}
	if mode == "slowtick" {
		ticker = true
	}
	var victim net.PacketConn
	if mode == "openclose" {
		if v, err := net.ListenPacket("udp", "127.0.0.1:0"); err == nil {
			victim = v
			h.openClose, h.victimAddr = true, v.LocalAddr().String()
		}
	}
	cli, err := gnet.NewClient(h, gnet.WithLogger(quiet{}), gnet.WithNumEventLoop(loops), gnet.WithTicker(ticker), gnet.WithEdgeTriggeredIO(et))
	if err != nil {
		return "result=newclient-failed"
	}
	if err := cli.Start(); err != nil {
		return "result=start-failed"
	}
	type cc struct {
		c    gnet.Conn
		k    string
		sent []byte
		cbs  int32
	}
	var conns []*cc
	for i := 0; i < nconn; i++ {
		c, err := cli.Dial(network, address)
		if err != nil {
			util.Fail(fmt.Sprintf("client: Dial failed: %v", err))
			continue
		}
		x := &cc{c: c, k: key(c)}
		s.mu.Lock()
		if s.opened[x.k] != 1 && !h.openClose { // (a connection that was closed inside OnOpen has lost its identity by now)
			util.Fail(fmt.Sprintf("C03/C04: Dial returned although OnOpen ran %d times for the connection", s.opened[x.k]))
		}
		s.mu.Unlock()
		conns = append(conns, x)
	}
	dialled := len(conns)
	if h.openClose {
		// C04 / C07: a connection that was closed inside OnOpen is finished - the reply OnOpen returned must not be
		// sent on its descriptor number, which belongs to somebody else by now
		buf := make([]byte, 64)
		_ = victim.SetReadDeadline(time.Now().Add(150 * time.Millisecond))
		if n, _, err := victim.ReadFrom(buf); err == nil {
			util.Fail(fmt.Sprintf("C04/C07: the reply of OnOpen (%q) of a connection that was closed inside OnOpen was sent on its former descriptor number, which belonged to an unrelated socket by then", buf[:n]))
		}
		s.mu.Lock()
		if len(s.opened) != dialled || len(s.closed) != dialled {
			util.Fail(fmt.Sprintf("C04: %d connections were dialled and closed inside OnOpen: %d saw OnOpen, %d saw OnClose", dialled, len(s.opened), len(s.closed)))
		}
		for k, n := range s.closed {
			if n != 1 || s.opened[k] != 1 {
				util.Fail(fmt.Sprintf("C04: a connection closed inside OnOpen saw OnOpen %d times and OnClose %d times", s.opened[k], n))
			}
		}
		for _, v := range h.victims {
			_ = v.Close()
		}
		h.victims = nil
		s.mu.Unlock()
		_ = victim.Close()
		conns = nil // nothing else to do with them
	}
	// asynchronous writes from this goroutine: carried out once each, in issue order (C03, C02)
	for i, x := range conns {
		for j := 0; j < 3; j++ {
			msg := []byte(fmt.Sprintf("<m%d.%d>", i, j))
			if proto == "udp" && j > 0 {
				break // one datagram per connection keeps the peer's replies ordered
			}
			x.sent = append(x.sent, msg...)
			xx := x
			if err := x.c.AsyncWrite(msg, func(gnet.Conn, error) error { atomic.AddInt32(&xx.cbs, 1); return nil }); err != nil {
				util.Fail(fmt.Sprintf("client: AsyncWrite refused on an open connection: %v", err))
			}
		}
	}
	// the peer sends data on every stream connection
	if proto != "udp" {
		settle(2*time.Second, func() bool { p.mu.Lock(); defer p.mu.Unlock(); return len(p.conns) >= len(conns) })
		p.mu.Lock()
		for i, pc := range p.conns {
			msg := []byte(fmt.Sprintf("[peer-data-%d]", i))
			pc.sent = append(pc.sent, msg...)
			_, _ = pc.c.Write(msg)
		}
		p.mu.Unlock()
	}
	// wait for the callbacks of the asynchronous writes
	for _, x := range conns {
		want := int32(3)
		if proto == "udp" {
			want = 1
		}
		xx := x
		if !settle(3*time.Second, func() bool { return atomic.LoadInt32(&xx.cbs) >= want }) {
			util.Fail(fmt.Sprintf("C03: %d of %d AsyncWrite callbacks ran within 3 s on a client connection", atomic.LoadInt32(&x.cbs), want))
		}
		time.Sleep(2 * time.Millisecond)
		if n := atomic.LoadInt32(&x.cbs); n > want {
			util.Fail(fmt.Sprintf("C03: AsyncWrite callbacks ran %d times for %d requests", n, want))
		}
	}
	// C02: every peer connection received "hi" followed by the messages of exactly one client connection, in order
	if proto != "udp" {
		var wantSet, gotSet []string
		for _, x := range conns {
			wantSet = append(wantSet, "hi"+string(x.sent))
		}
		ok := settle(3*time.Second, func() bool {
			gotSet = gotSet[:0]
			p.mu.Lock()
			for _, pc := range p.conns {
				pc.mu.Lock()
				gotSet = append(gotSet, string(pc.got))
				pc.mu.Unlock()
			}
			p.mu.Unlock()
			sort.Strings(gotSet)
			sort.Strings(wantSet)
			return strings.Join(gotSet, "|") == strings.Join(wantSet, "|")
		})
		if !ok {
			util.Fail(fmt.Sprintf("C02: the peers of the client connections received %q, the accepted output was %q", gotSet, wantSet))
		}
		// C01: every client connection consumed exactly what its peer sent (each peer sent a distinct message)
		ok = settle(3*time.Second, func() bool {
			s.mu.Lock()
			defer s.mu.Unlock()
			n := 0
			for _, x := range conns {
				if bytes.HasPrefix(h.recv[x.k], []byte("[peer-data-")) && bytes.HasSuffix(h.recv[x.k], []byte("]")) && bytes.Count(h.recv[x.k], []byte("[")) == 1 {
					n++
				}
			}
			return n == len(conns)
		})
		if !ok {
			s.mu.Lock()
			var got []string
			for _, x := range conns {
				got = append(got, string(h.recv[x.k]))
			}
			s.mu.Unlock()
			util.Fail(fmt.Sprintf("C01: client connections consumed %q, each peer sent one [peer-data-i]", got))
		}
	} else {
		ok := settle(3*time.Second, func() bool {
			s.mu.Lock()
			defer s.mu.Unlock()
			for _, x := range conns {
				if string(h.recv[x.k]) != "re:"+string(x.sent) {
					return false
				}
			}
			return true
		})
		if !ok {
			util.Fail("C08/C01: a connected client UDP socket did not receive exactly the reply datagram of its peer")
		}
	}
	// Wake on a quiet open connection: exactly one OnTraffic (C03)
	if mode == "wake" && len(conns) > 0 {
		x := conns[0]
		time.Sleep(20 * time.Millisecond)
		s.mu.Lock()
		before := h.traffic[x.k]
		s.mu.Unlock()
		var wcb int32
		if err := x.c.Wake(func(gnet.Conn, error) error { atomic.AddInt32(&wcb, 1); return nil }); err != nil {
			util.Fail(fmt.Sprintf("client: Wake refused: %v", err))
		}
		settle(3*time.Second, func() bool { s.mu.Lock(); defer s.mu.Unlock(); return h.traffic[x.k] > before }) // robust under load
		time.Sleep(40 * time.Millisecond)                                                                       // a second call would show up now
		s.mu.Lock()
		after := h.traffic[x.k]
		s.mu.Unlock()
		if after != before+1 {
			util.Fail(fmt.Sprintf("C03: a Wake on an open quiet connection produced %d OnTraffic calls", after-before))
		}
		if n := atomic.LoadInt32(&wcb); n != 1 {
			util.Fail(fmt.Sprintf("C03: the Wake callback ran %d times", n))
		}
	}
	// C17 / C12: the addresses of a live connection stay what they were while other connections are closed and
	// pooled memory is handed out again (zone strings must not end up in the byte-slice pool while in use)
	if mode == "zone" && len(conns) >= 2 {
		keep := conns[len(conns)-1]
		wantR, wantL := strings.Clone(keep.c.RemoteAddr().String()), strings.Clone(keep.c.LocalAddr().String())
		first := conns[0]
		_ = first.c.Close()
		settle(3*time.Second, func() bool { s.mu.Lock(); defer s.mu.Unlock(); return s.closed[first.k] == 1 })
		for n := 1; n <= 16; n++ { // whatever size class a zone string would fall into
			for i := 0; i < 4; i++ {
				x := byteslice.Get(n)
				for j := range x {
					x[j] = '#'
				}
			}
		}
		if got := keep.c.RemoteAddr().String(); got != wantR {
			util.Fail(fmt.Sprintf("C17: RemoteAddr of a live connection changed from %s to %s after another connection was closed and pooled memory was reused", wantR, got))
		}
		if got := keep.c.LocalAddr().String(); got != wantL {
			util.Fail(fmt.Sprintf("C17: LocalAddr of a live connection changed from %s to %s after another connection was closed and pooled memory was reused", wantL, got))
		}
		if r, err := net.ResolveTCPAddr(network, address); err == nil && network != "unix" && network != "udp" && r.String() != address {
			util.Fail(fmt.Sprintf("C12/C17: memory of package net was handed out by the byte-slice pool: %s now resolves to %s", address, r))
		}
	}
	// some connections end before the shutdown
	closedEarly := map[string]string{}
	switch mode {
	case "peerclose":
		if proto != "udp" {
			p.mu.Lock()
			for i, pc := range p.conns {
				if i%2 == 0 {
					_ = pc.c.Close()
				}
			}
			p.mu.Unlock()
			time.Sleep(30 * time.Millisecond)
			s.mu.Lock()
			for k, n := range s.closed {
				if n == 1 {
					closedEarly[k] = "peer"
					if !h.closeErr[k] {
						util.Fail("C04: OnClose reported a nil error for a connection its peer closed")
					}
				}
			}
			s.mu.Unlock()
		}
	case "localclose":
		for i, x := range conns {
			if i%2 == 0 {
				var ccb int32
				if err := x.c.CloseWithCallback(func(gnet.Conn, error) error { atomic.AddInt32(&ccb, 1); return nil }); err != nil {
					util.Fail(fmt.Sprintf("client: CloseWithCallback refused: %v", err))
				}
				xx := x
				if !settle(3*time.Second, func() bool { s.mu.Lock(); defer s.mu.Unlock(); return s.closed[xx.k] == 1 }) {
					util.Fail("C03/C04: a Close request on an open client connection did not produce OnClose within 3 s")
				}
				time.Sleep(5 * time.Millisecond)
				if n := atomic.LoadInt32(&ccb); n != 1 {
					util.Fail(fmt.Sprintf("C03: the CloseWithCallback callback ran %d times", n))
				}
				s.mu.Lock()
				if h.closeErr[x.k] {
					util.Fail("C04: OnClose reported a non-nil error for a locally requested close")
				}
				s.mu.Unlock()
				closedEarly[x.k] = "local"
				// requests that reach an already closed connection (C04): write completes with an error, Wake/Close are no-ops
				var got int32
				var gotErr atomic.Value
				if err := x.c.AsyncWrite([]byte("late"), func(_ gnet.Conn, err error) error {
					if err != nil {
						gotErr.Store(err.Error())
					}
					atomic.AddInt32(&got, 1)
					return nil
				}); err == nil {
					settle(2*time.Second, func() bool { return atomic.LoadInt32(&got) == 1 })
					if atomic.LoadInt32(&got) != 1 {
						util.Fail(fmt.Sprintf("C04: the callback of an AsyncWrite that reached a closed connection ran %d times", got))
					} else if gotErr.Load() == nil {
						util.Fail("C04: an AsyncWrite that reached a closed connection completed without an error")
					}
				}
				_ = x.c.Wake(nil)
				_ = x.c.Close()
				time.Sleep(10 * time.Millisecond)
				s.mu.Lock()
				if s.closed[x.k] != 1 {
					util.Fail(fmt.Sprintf("C04: OnClose ran %d times after Wake/Close reached a closed connection", s.closed[x.k]))
				}
				s.mu.Unlock()
			}
		}
	}
	// ---- shutdown
	done := make(chan error, 1)
	go func() {
		err := cli.Stop()
		atomic.StoreInt32(&s.returned, 1)
		s.log("runreturn", errStr(err))
		done <- err
	}()
	select {
	case err := <-done:
		if err != nil {
			util.Fail(fmt.Sprintf("C06: Client.Stop returned %v", err))
		}
		if n := atomic.LoadInt32(&h.inTick); n != 0 {
			util.Fail("C06: Client.Stop returned while OnTick was still executing")
		}
	case <-time.After(10 * time.Second):
		util.Fail("C06: Client.Stop did not return within 10 s")
		return "result=hang"
	}
	time.Sleep(30 * time.Millisecond)
	if atomic.LoadInt32(&s.afterRet) == 1 {
		util.Fail("C06: a callback ran after Client.Stop returned")
	}
	if n := atomic.LoadInt32(&s.shutdown); n != 1 {
		util.Fail(fmt.Sprintf("C06: OnShutdown ran %d times for a client", n))
	}
	s.mu.Lock()
	for k, n := range s.opened {
		if n != 1 || s.closed[k] != 1 {
			util.Fail(fmt.Sprintf("C04/C06: a client connection saw OnOpen %d times and OnClose %d times by the time Stop returned", n, s.closed[k]))
		}
	}
	if len(s.opened) != dialled {
		util.Fail(fmt.Sprintf("C04: %d connections were dialled, %d saw OnOpen", dialled, len(s.opened)))
	}
	evs := append([]event{}, s.evs...)
	s.mu.Unlock()
	// C07: every descriptor the client created is closed when Stop returns
	if p.ln != nil {
		_ = p.ln.Close()
	}
	if p.pc != nil {
		_ = p.pc.Close()
	}
	p.mu.Lock()
	for _, pc := range p.conns {
		if pc.c != nil {
			_ = pc.c.Close()
		}
	}
	p.mu.Unlock()
	if !hammer && base > 0 {
		var now int
		if !settle(2*time.Second, func() bool { now = countFds(); return now <= base }) {
			util.Fail(fmt.Sprintf("C07: %d descriptors are open after Client.Stop returned and the peer closed everything, %d before the client was created: leaked %s", now, base, newFds(baseTab)))
		}
	}
	sort.Slice(evs, func(i, j int) bool { return evs[i].seq < evs[j].seq })
	names := map[string]string{}
	var parts []string
	for _, e := range evs {
		a := e.arg
		if e.kind == "open" || e.kind == "traffic" || e.kind == "close" {
			if _, ok := names[a]; !ok {
				names[a] = fmt.Sprintf("c%d", len(names)+1)
			}
			a = names[a]
		}
		if e.kind == "tick" {
			continue
		}
		if a == "" {
			parts = append(parts, e.kind)
		} else {
			parts = append(parts, e.kind+":"+a)
		}
	}
	return "result=ok stop=- | " + strings.Join(parts, " ")
}
