// Driver for C10: elastic.RingBuffer and elastic.Buffer.
package main

import (
	"bytes"
	"flag"
	"fmt"
	"math"
	"os"
	"runtime"
	"runtime/debug"
	"strconv"
	"strings"

	"github.com/panjf2000/gnet/v2/pkg/buffer/elastic"
	"github.com/panjf2000/gnet/v2/pkg/buffer/ring"
	rbPool "github.com/panjf2000/gnet/v2/pkg/pool/ringbuffer"

	"gnetverif/harness/util"
)

var known = map[error]string{ring.ErrIsEmpty: "isempty"}

type state struct {
	rb  *elastic.RingBuffer
	mb  *elastic.Buffer
	ref []byte
	pos int
}

var st state

func min(a, b int) int {
	if a < b {
		return a
	}
	return b
}

func rstat() string {
	b := st.rb
	if b.Buffered() != len(st.ref) {
		util.Fail(fmt.Sprintf("Buffered=%d but %d bytes are owed", b.Buffered(), len(st.ref)))
	}
	if b.IsEmpty() != (len(st.ref) == 0) {
		util.Fail(fmt.Sprintf("IsEmpty=%v with %d bytes owed", b.IsEmpty(), len(st.ref)))
	}
	if b.Buffered()+b.Available() != b.Cap() {
		util.Fail(fmt.Sprintf("Buffered+Available=%d+%d != Cap=%d", b.Buffered(), b.Available(), b.Cap()))
	}
	alloc, _ := b.VerifRing()
	return fmt.Sprintf(" buffered=%d avail=%d cap=%d len=%d empty=%s full=%s alloc=%s",
		b.Buffered(), b.Available(), b.Cap(), b.Len(), util.B(b.IsEmpty()), util.B(b.IsFull()), util.B(alloc))
}

func bstat() string {
	m := st.mb
	if m.Buffered() != len(st.ref) {
		util.Fail(fmt.Sprintf("Buffered=%d but %d bytes are owed", m.Buffered(), len(st.ref)))
	}
	if m.IsEmpty() != (len(st.ref) == 0) {
		util.Fail(fmt.Sprintf("IsEmpty=%v with %d bytes owed", m.IsEmpty(), len(st.ref)))
	}
	ralloc, rcap, rbuf, llen, lbuf := m.VerifParts()
	return fmt.Sprintf(" buffered=%d empty=%s ralloc=%s rcap=%d rbuf=%d llen=%d lbuf=%d",
		m.Buffered(), util.B(m.IsEmpty()), util.B(ralloc), rcap, rbuf, llen, lbuf)
}

func expectPrefix(what string, got []byte) {
	n := len(got)
	if n > len(st.ref) {
		util.Fail(fmt.Sprintf("%s returned %d bytes but only %d are owed", what, n, len(st.ref)))
		return
	}
	if !bytes.Equal(got, st.ref[:n]) {
		util.Fail(fmt.Sprintf("%s returned %s, owed %s", what, util.Hex(got), util.Hex(st.ref[:n])))
	}
}

func consume(n int) { st.ref = st.ref[min(n, len(st.ref)):] }

func segs(bs [][]byte) string {
	if len(bs) == 0 {
		return "none"
	}
	parts := make([]string, len(bs))
	for i, b := range bs {
		parts[i] = util.Hex(b)
	}
	return strings.Join(parts, "|")
}

func flat(bs [][]byte) []byte {
	var out []byte
	for _, b := range bs {
		out = append(out, b...)
	}
	return out
}

func newPool(ws []string) {
	rbPool.VerifReset()
	if len(ws) > 0 {
		c, _ := strconv.Atoi(ws[0])
		rbPool.VerifSeed(c)
	}
}

func stepRing(ws []string) string {
	b := st.rb
	switch ws[0] {
	case "write", "writestring":
		p := util.UnHex(ws[1])
		var n int
		var err error
		if ws[0] == "write" {
			n, err = b.Write(p)
		} else {
			n, err = b.WriteString(string(p))
		}
		st.ref = append(st.ref, p...)
		if n != len(p) || err != nil {
			util.Fail(fmt.Sprintf("Write(%d bytes) = %d, %v", len(p), n, err))
		}
		return fmt.Sprintf("n=%d err=%s", n, util.ErrName(err, known)) + rstat()
	case "writebyte":
		p := util.UnHex(ws[1])
		err := b.WriteByte(p[0])
		st.ref = append(st.ref, p[0])
		return fmt.Sprintf("err=%s", util.ErrName(err, known)) + rstat()
	case "read":
		n, _ := strconv.Atoi(ws[1])
		p := make([]byte, n)
		m, err := b.Read(p)
		if m != min(n, len(st.ref)) {
			util.Fail(fmt.Sprintf("Read(len %d) = %d with %d bytes owed", n, m, len(st.ref)))
		}
		expectPrefix("Read", p[:m])
		consume(m)
		return fmt.Sprintf("n=%d err=%s data=%s", m, util.ErrName(err, known), util.Hex(p[:m])) + rstat()
	case "readbyte":
		c, err := b.ReadByte()
		bs := "-"
		if err == nil {
			bs = util.Hex([]byte{c})
			expectPrefix("ReadByte", []byte{c})
			consume(1)
		} else if len(st.ref) != 0 {
			util.Fail("ReadByte failed on a non-empty buffer")
		}
		return fmt.Sprintf("b=%s err=%s", bs, util.ErrName(err, known)) + rstat()
	case "peek":
		n, _ := strconv.Atoi(ws[1])
		h, t := b.Peek(n)
		want := len(st.ref)
		if n > 0 {
			want = min(n, want)
		}
		got := append(append([]byte{}, h...), t...)
		if len(got) != want {
			util.Fail(fmt.Sprintf("Peek(%d) returned %d bytes, want %d", n, len(got), want))
		}
		expectPrefix("Peek", got)
		return fmt.Sprintf("head=%s tail=%s", util.Hex(h), util.Hex(t)) + rstat()
	case "discard":
		n, _ := strconv.Atoi(ws[1])
		d, err := b.Discard(n)
		want := 0
		if n > 0 {
			want = min(n, len(st.ref))
		}
		if d != want {
			util.Fail(fmt.Sprintf("Discard(%d) = %d, want %d", n, d, want))
		}
		consume(want)
		return fmt.Sprintf("n=%d err=%s", d, util.ErrName(err, known)) + rstat()
	case "bytes":
		x := b.Bytes()
		if !bytes.Equal(x, st.ref) {
			util.Fail(fmt.Sprintf("Bytes() = %s, owed %s", util.Hex(x), util.Hex(st.ref)))
		}
		return fmt.Sprintf("data=%s", util.Hex(x)) + rstat()
	case "readfrom":
		start := st.pos
		r := &util.Reader{Script: util.ParseScript(ws[1]), Pos: &st.pos}
		n, err := b.ReadFrom(r)
		for i := 0; i < r.Delivered; i++ {
			st.ref = append(st.ref, util.Fresh(start+i))
		}
		if int(n) != r.Delivered {
			util.Fail(fmt.Sprintf("ReadFrom reported %d, reader delivered %d", n, r.Delivered))
		}
		return fmt.Sprintf("n=%d err=%s", n, util.ErrName(err, known)) + rstat()
	case "writeto":
		w := &util.Writer{Script: util.ParseScript(ws[1])}
		n, err := b.WriteTo(w)
		if int(n) != len(w.Sink) {
			util.Fail(fmt.Sprintf("WriteTo reported %d, writer accepted %d", n, len(w.Sink)))
		}
		expectPrefix("WriteTo", w.Sink)
		consume(len(w.Sink))
		if err == nil && len(st.ref) != 0 {
			util.Fail("WriteTo returned nil with bytes left")
		}
		return fmt.Sprintf("n=%d err=%s sink=%s", n, util.ErrName(err, known), util.Hex(w.Sink)) + rstat()
	case "reset":
		b.Reset()
		st.ref = nil
		return "ok" + rstat()
	case "done":
		b.Done()
		st.ref = nil
		return "ok" + rstat()
	}
	return "bad-op"
}

func stepBuf(ws []string) string {
	m := st.mb
	switch ws[0] {
	case "write":
		p := util.UnHex(ws[1])
		n, err := m.Write(p)
		st.ref = append(st.ref, p...)
		if n != len(p) || err != nil {
			util.Fail(fmt.Sprintf("Write(%d bytes) = %d, %v", len(p), n, err))
		}
		return fmt.Sprintf("n=%d err=%s", n, util.ErrName(err, known)) + bstat()
	case "writev":
		var bs [][]byte
		if ws[1] != "none" {
			for _, h := range strings.Split(ws[1], ",") {
				bs = append(bs, util.UnHex(h))
			}
		}
		n, err := m.Writev(bs)
		st.ref = append(st.ref, flat(bs)...)
		if n != len(flat(bs)) || err != nil {
			util.Fail(fmt.Sprintf("Writev(%d bytes) = %d, %v", len(flat(bs)), n, err))
		}
		return fmt.Sprintf("n=%d err=%s", n, util.ErrName(err, known)) + bstat()
	case "read":
		n, _ := strconv.Atoi(ws[1])
		p := make([]byte, n)
		k, err := m.Read(p)
		if k != min(n, len(st.ref)) {
			util.Fail(fmt.Sprintf("Read(len %d) = %d with %d bytes owed", n, k, len(st.ref)))
		}
		expectPrefix("Read", p[:k])
		consume(k)
		return fmt.Sprintf("n=%d err=%s data=%s", k, util.ErrName(err, known), util.Hex(p[:k])) + bstat()
	case "peek":
		n, _ := strconv.Atoi(ws[1])
		bs, err := m.Peek(n)
		if n <= 0 || n == math.MaxInt32 {
			if err != nil || !bytes.Equal(flat(bs), st.ref) {
				util.Fail(fmt.Sprintf("Peek(all) = %s, %v; owed %s", util.Hex(flat(bs)), err, util.Hex(st.ref)))
			}
		} else if n <= len(st.ref) {
			if err != nil || !bytes.Equal(flat(bs), st.ref[:n]) {
				util.Fail(fmt.Sprintf("Peek(%d) = %s, %v; owed %s", n, util.Hex(flat(bs)), err, util.Hex(st.ref[:n])))
			}
		}
		return fmt.Sprintf("segs=%s err=%s", segs(bs), util.ErrName(err, known)) + bstat()
	case "discard":
		n, _ := strconv.Atoi(ws[1])
		d, err := m.Discard(n)
		want := 0
		if n > 0 {
			want = min(n, len(st.ref))
		}
		if d != want {
			util.Fail(fmt.Sprintf("Discard(%d) = %d, want %d", n, d, want))
		}
		consume(want)
		return fmt.Sprintf("n=%d err=%s", d, util.ErrName(err, known)) + bstat()
	case "readfrom":
		start := st.pos
		r := &util.Reader{Script: util.ParseScript(ws[1]), Pos: &st.pos}
		n, err := m.ReadFrom(r)
		for i := 0; i < r.Delivered; i++ {
			st.ref = append(st.ref, util.Fresh(start+i))
		}
		if int(n) != r.Delivered {
			util.Fail(fmt.Sprintf("ReadFrom reported %d, reader delivered %d", n, r.Delivered))
		}
		return fmt.Sprintf("n=%d err=%s", n, util.ErrName(err, known)) + bstat()
	case "writeto":
		w := &util.Writer{Script: util.ParseScript(ws[1])}
		n, err := m.WriteTo(w)
		if int(n) != len(w.Sink) {
			util.Fail(fmt.Sprintf("WriteTo reported %d, writer accepted %d", n, len(w.Sink)))
		}
		expectPrefix("WriteTo", w.Sink)
		if len(st.ref) > 0 && len(w.Sink) == 0 && len(w.Script) == len(util.ParseScript(ws[1])) {
			util.Fail("WriteTo offered nothing to the writer although bytes are buffered")
		}
		consume(len(w.Sink))
		if err == nil && len(st.ref) != 0 {
			util.Fail("WriteTo returned nil with bytes left")
		}
		return fmt.Sprintf("n=%d err=%s sink=%s", n, util.ErrName(err, known), util.Hex(w.Sink)) + bstat()
	case "reset":
		n, _ := strconv.Atoi(ws[1])
		m.Reset(n)
		st.ref = nil
		return "ok" + bstat()
	case "release":
		m.Release()
		st.ref = nil
		return "ok" + bstat()
	}
	return "bad-op"
}

func step(ws []string) string {
	switch ws[0] {
	case "newring":
		newPool(ws[1:])
		st = state{rb: &elastic.RingBuffer{}}
		return "ok" + rstat()
	case "newbuf":
		ms, _ := strconv.Atoi(ws[1])
		newPool(ws[2:])
		mb, _ := elastic.New(ms)
		st = state{mb: mb}
		return "ok" + bstat()
	}
	if st.rb != nil {
		return stepRing(ws)
	}
	if st.mb != nil {
		return stepBuf(ws)
	}
	return "bad-op"
}

// ------------------------------------------------------------ generation

type gen struct {
	r    *util.Rng
	ctr  int
	out  *strings.Builder
	hist map[string]int
	ms   int
	buf  int // running estimate of buffered bytes (steers sizes)
}

func (g *gen) payload(n int) []byte {
	p := make([]byte, n)
	for i := range p {
		g.ctr++
		p[i] = byte((g.ctr*7 + 3) % 256)
	}
	return p
}

func (g *gen) size(big bool) int {
	ms := g.ms
	cands := []int{0, 1, 2, 3, g.r.Intn(12), g.r.Intn(40), g.buf - 1, g.buf, g.buf + 1}
	if ms > 0 && (big || ms <= 64) {
		cands = append(cands, ms-1, ms, ms+1, ms/2, ms-g.buf, ms-g.buf+1)
	}
	if big {
		cands = append(cands, 511, 512, 513, 1023, 1024, 1025, g.r.Intn(3000))
	}
	n := cands[g.r.Intn(len(cands))]
	if n < 0 {
		n = 0
	}
	if !big && n > 80 {
		n = g.r.Intn(80)
	}
	return n
}

func (g *gen) script(isReader, big bool) []util.Step {
	var s []util.Step
	n := 1 + g.r.Intn(3)
	eof := util.ParseScript("0:eof")[0].Err
	for i := 0; i < n; i++ {
		k := g.size(big)
		if g.r.Intn(3) == 0 {
			k = 1 << 30
		}
		if isReader && !big && k > 30 {
			k = g.r.Intn(30)
		}
		var err error
		if i == n-1 || g.r.Intn(6) == 0 {
			switch g.r.Intn(4) {
			case 0:
				err = util.ErrOther{Tag: 1}
			case 1:
				if isReader {
					err = util.ErrOther{Tag: 2}
				}
			default:
				if isReader {
					err = eof
				}
			}
		}
		s = append(s, util.Step{K: k, Err: err})
		if err != nil {
			break
		}
	}
	return s
}

func (g *gen) emit(op string) {
	g.hist[strings.Fields(op)[0]]++
	fmt.Fprintln(g.out, op)
}

func (g *gen) genRing(id int, big bool) {
	g.ms = 0
	g.buf = 0
	hdr := "newring"
	if g.r.Intn(3) == 0 {
		hdr += fmt.Sprintf(" %d", g.r.Pick(2, 4, 8, 16, 64, 1024, 4096))
	}
	fmt.Fprintf(g.out, "case %d\n%s\n", id, hdr)
	nops := 4 + g.r.Intn(25)
	weights := []int{22, 3, 8, 14, 6, 8, 8, 5, 4, 7, 2, 3}
	for i := 0; i < nops; i++ {
		switch g.r.Weighted(weights) {
		case 0:
			n := g.size(big)
			g.buf += n
			g.emit("write " + util.Hex(g.payload(n)))
		case 1:
			n := g.size(big)
			g.buf += n
			g.emit("writestring " + util.Hex(g.payload(n)))
		case 2:
			g.buf++
			g.emit("writebyte " + util.Hex(g.payload(1)))
		case 3:
			n := g.size(big)
			g.buf -= min(n, g.buf)
			g.emit(fmt.Sprintf("read %d", n))
		case 4:
			g.buf -= min(1, g.buf)
			g.emit("readbyte")
		case 5:
			n := g.size(big)
			if g.r.Intn(5) == 0 {
				n = -g.r.Intn(3)
			}
			g.emit(fmt.Sprintf("peek %d", n))
		case 6:
			n := g.size(big)
			if g.r.Intn(8) == 0 {
				n = -g.r.Intn(3)
			}
			if n > 0 {
				g.buf -= min(n, g.buf)
			}
			g.emit(fmt.Sprintf("discard %d", n))
		case 7:
			g.emit("bytes")
		case 8:
			if big {
				g.emit("readfrom " + util.ScriptString(g.script(true, big)))
			}
		case 9:
			g.emit("writeto " + util.ScriptString(g.script(false, big)))
		case 10:
			g.buf = 0
			g.emit("reset")
		case 11:
			g.buf = 0
			g.emit("done")
		}
	}
}

func (g *gen) segments(big bool) string {
	k := g.r.Pick(0, 1, 2, 3, 4, 6)
	if big && g.r.Intn(20) == 0 {
		k = g.r.Pick(1023, 1024, 1025, 1100)
	}
	if k == 0 {
		return "none"
	}
	parts := make([]string, k)
	for j := range parts {
		n := g.size(big && k < 100)
		if k >= 100 {
			n = g.r.Intn(3)
		}
		g.buf += n
		parts[j] = util.Hex(g.payload(n))
	}
	return strings.Join(parts, ",")
}

func (g *gen) genBuf(id int, big bool) {
	g.ms = g.r.Pick(1, 2, 3, 8, 16, 33)
	if big {
		g.ms = g.r.Pick(1, 2, 1023, 1024, 1025, 2048, 4096)
	}
	g.buf = 0
	hdr := fmt.Sprintf("newbuf %d", g.ms)
	if g.r.Intn(3) == 0 {
		hdr += fmt.Sprintf(" %d", g.r.Pick(2, 4, 8, 16, 64, 1024, 4096))
	}
	fmt.Fprintf(g.out, "case %d\n%s\n", id, hdr)
	nops := 4 + g.r.Intn(25)
	weights := []int{22, 12, 14, 10, 8, 6, 8, 2, 2}
	for i := 0; i < nops; i++ {
		switch g.r.Weighted(weights) {
		case 0:
			n := g.size(big)
			g.buf += n
			g.emit("write " + util.Hex(g.payload(n)))
		case 1:
			g.emit("writev " + g.segments(big))
		case 2:
			n := g.size(big)
			g.buf -= min(n, g.buf)
			g.emit(fmt.Sprintf("read %d", n))
		case 3:
			n := g.size(big)
			switch g.r.Intn(8) {
			case 0:
				n = -g.r.Intn(3)
			case 1:
				n = math.MaxInt32
			}
			g.emit(fmt.Sprintf("peek %d", n))
		case 4:
			n := g.size(big)
			if g.r.Intn(8) == 0 {
				n = -g.r.Intn(3)
			}
			if n > 0 {
				g.buf -= min(n, g.buf)
			}
			g.emit(fmt.Sprintf("discard %d", n))
		case 5:
			if big || g.r.Intn(2) == 0 {
				g.emit("readfrom " + util.ScriptString(g.script(true, big)))
			}
		case 6:
			g.emit("writeto " + util.ScriptString(g.script(false, big)))
		case 7:
			g.buf = 0
			ms := g.r.Pick(0, -1, 1, 4, 16, 1024)
			if ms > 0 {
				g.ms = ms
			}
			g.emit(fmt.Sprintf("reset %d", ms))
		case 8:
			g.buf = 0
			g.emit("release")
		}
	}
}

func main() {
	mode := flag.String("mode", "exec", "gen|exec")
	seed := flag.Int64("seed", 1, "PRNG seed")
	cases := flag.Int("cases", 1000, "number of cases")
	flag.Parse()
	// the pool model assumes one P and no collection between operations
	runtime.GOMAXPROCS(1)
	debug.SetGCPercent(-1)
	switch *mode {
	case "gen":
		g := &gen{r: util.NewRng(*seed), out: &strings.Builder{}, hist: map[string]int{}}
		for i := 0; i < *cases; i++ {
			if i%3 == 0 {
				g.genRing(i, i%5 == 4)
			} else {
				g.genBuf(i, i%5 == 4)
			}
			if g.out.Len() > 1<<20 {
				os.Stdout.WriteString(g.out.String())
				g.out.Reset()
			}
		}
		os.Stdout.WriteString(g.out.String())
		fmt.Fprintf(os.Stderr, "DIST %v\n", g.hist)
	case "exec":
		util.Exec(func(string) { st = state{} }, step)
		if util.Fails > 0 {
			os.Exit(3)
		}
	}
}
