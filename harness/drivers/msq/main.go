// Driver for C13: the lock-free queue under a cooperative scheduler (T-sched).
// The queue source is instrumented at build time (atomic.* -> verifsched.*), so every atomic
// action of every logical thread is one `step <tid>` of the schedule. After every step the
// shared structure is dumped while all threads are parked.
package main

import (
	"flag"
	"fmt"
	"os"
	"strconv"
	"strings"
	"time"
	"unsafe"

	"github.com/panjf2000/gnet/v2/pkg/queue"
	vs "github.com/panjf2000/gnet/v2/pkg/verifsched"

	"gnetverif/harness/util"
)

type opReq struct {
	kind string
	v    int
}

type worker struct {
	ops   chan opReq
	grant chan struct{}
	busy  bool // an operation is in progress (started, not yet done)
}

// ---- history for the oracle
type histEv struct {
	tid   int
	kind  string // enq | deq | len
	v     int    // enqueued value / dequeued value (-1 = nil) / length
	call  int    // event counters: call and return time
	ret   int
	ended bool
}

type state struct {
	q       queue.AsyncTaskQueue
	dummy   unsafe.Pointer
	ws      []*worker
	hist    []*histEv
	cur     map[int]*histEv
	clock   int
	enqd    map[int]bool
	deqd    map[int]bool
	ordered map[int][]int // per producer thread: values in issue order
}

var st *state

func waitEvent(tid int) vs.Event {
	for {
		select {
		case ev := <-vs.Events:
			if ev.Tid == tid {
				return ev
			}
			// an event of another thread cannot occur: only one thread runs at a time
			util.Fail(fmt.Sprintf("scheduler: unexpected event from thread %d while running %d", ev.Tid, tid))
		case <-time.After(10 * time.Second):
			util.Fail(fmt.Sprintf("scheduler: thread %d did not reach a scheduling point (livelock or blocked)", tid))
			return vs.Event{Tid: tid, Kind: "stuck"}
		}
	}
}

func newState(n int) {
	if st != nil { // let the previous workers go
		for _, w := range st.ws {
			close(w.ops)
		}
	}
	st = &state{cur: map[int]*histEv{}, enqd: map[int]bool{}, deqd: map[int]bool{}, ordered: map[int][]int{}}
	st.q, st.dummy = queue.VerifNewLockFreeQueue()
	vs.Activate(true)
	for i := 0; i < n; i++ {
		w := &worker{ops: make(chan opReq)}
		st.ws = append(st.ws, w)
		ready := make(chan struct{})
		go func(id int, w *worker) {
			w.grant = vs.Register(id)
			close(ready)
			for op := range w.ops {
				switch op.kind {
				case "enq":
					t := &queue.Task{Param: op.v}
					st.q.Enqueue(t)
					vs.Done("enq")
				case "deq":
					t := st.q.Dequeue()
					if t == nil {
						vs.Done("deq:nil")
					} else {
						vs.Done(fmt.Sprintf("deq:%d", t.Param.(int)))
					}
				case "len":
					vs.Done(fmt.Sprintf("len:%d", st.q.Length()))
				}
			}
			vs.Unregister()
		}(i, w)
		<-ready
	}
}

func dump() string {
	h, t, n, l := queue.VerifDump(st.q, st.dummy)
	return fmt.Sprintf("head=%d tail=%d nodes=%d length=%d", h, t, n, l)
}

func quiescent() bool {
	for _, w := range st.ws {
		if w.busy {
			return false
		}
	}
	return true
}

// oracle on a completed operation
func onDone(tid int, payload string) {
	st.clock++
	h := st.cur[tid]
	if h == nil {
		return
	}
	h.ret, h.ended = st.clock, true
	delete(st.cur, tid)
	switch {
	case payload == "deq:nil":
		h.v = -1
	case strings.HasPrefix(payload, "deq:"):
		v, _ := strconv.Atoi(payload[4:])
		h.v = v
		if !st.enqd[v] {
			util.Fail(fmt.Sprintf("dequeue returned %d which was never enqueued", v))
		}
		if st.deqd[v] {
			util.Fail(fmt.Sprintf("task %d dequeued twice", v))
		}
		st.deqd[v] = true
		// per-producer FIFO: no earlier value of the same producer may still be undequeued... checked at the end by checkHistory
	case strings.HasPrefix(payload, "len:"):
		v, _ := strconv.Atoi(payload[4:])
		h.v = v
	}
	if quiescent() {
		// Length equals the number of tasks in the queue, IsEmpty agrees
		inq := 0
		for v := range st.enqd {
			if !st.deqd[v] {
				inq++
			}
		}
		if int(st.q.Length()) != inq || st.q.IsEmpty() != (inq == 0) {
			util.Fail(fmt.Sprintf("quiescent: Length=%d IsEmpty=%v but %d tasks are in the queue", st.q.Length(), st.q.IsEmpty(), inq))
		}
		checkHistory()
	}
}

// checkHistory: linearizability of the completed history against a sequential FIFO queue,
// by search over linearisation orders respecting real time (histories here are tiny).
func checkHistory() {
	var ops []*histEv
	for _, h := range st.hist {
		if h.ended && h.kind != "len" {
			ops = append(ops, h)
		}
	}
	if len(ops) > 14 {
		return // the per-event checks above still apply; exhaustive search is for small histories
	}
	used := make([]bool, len(ops))
	var rec func(done int, q []int) bool
	rec = func(done int, q []int) bool {
		if done == len(ops) {
			return true
		}
		// minimal return time among unused ops: an op may be linearised next only if it was
		// called before every unused op returned
		minRet := 1 << 60
		for i, o := range ops {
			if !used[i] && o.ret < minRet {
				minRet = o.ret
			}
		}
		for i, o := range ops {
			if used[i] || o.call > minRet {
				continue
			}
			switch o.kind {
			case "enq":
				used[i] = true
				if rec(done+1, append(append([]int{}, q...), o.v)) {
					return true
				}
				used[i] = false
			case "deq":
				if o.v == -1 {
					if len(q) == 0 {
						used[i] = true
						if rec(done+1, q) {
							return true
						}
						used[i] = false
					}
				} else if len(q) > 0 && q[0] == o.v {
					used[i] = true
					if rec(done+1, q[1:]) {
						return true
					}
					used[i] = false
				}
			}
		}
		return false
	}
	if !rec(0, nil) {
		var sb strings.Builder
		for _, o := range ops {
			fmt.Fprintf(&sb, "[t%d %s %d @%d-%d]", o.tid, o.kind, o.v, o.call, o.ret)
		}
		util.Fail("history is not linearizable w.r.t. a FIFO queue: " + sb.String())
	}
}

func step(ws []string) string {
	switch ws[0] {
	case "init":
		n, _ := strconv.Atoi(ws[1])
		newState(n)
		return "ok"
	case "start":
		tid, _ := strconv.Atoi(ws[1])
		w := st.ws[tid]
		if w.busy {
			return "bad-op"
		}
		op := opReq{kind: ws[2]}
		if op.kind == "enq" {
			op.v, _ = strconv.Atoi(ws[3])
			st.enqd[op.v] = true
			st.ordered[tid] = append(st.ordered[tid], op.v)
		}
		st.clock++
		h := &histEv{tid: tid, kind: op.kind, v: op.v, call: st.clock}
		st.hist = append(st.hist, h)
		st.cur[tid] = h
		w.busy = true
		w.ops <- op
		ev := waitEvent(tid) // runs to its first atomic action
		if ev.Kind != "parked" {
			return "bad-start:" + ev.Kind
		}
		return "ok"
	case "step":
		tid, _ := strconv.Atoi(ws[1])
		w := st.ws[tid]
		if !w.busy {
			return "ret=- " + dump() // a step of an idle thread is a no-op (as in the model)
		}
		w.grant <- struct{}{}
		ev := waitEvent(tid)
		ret := "-"
		if ev.Kind == "done" {
			w.busy = false
			ret = ev.Payload
			onDone(tid, ev.Payload)
		}
		return "ret=" + ret + " " + dump()
	}
	return "bad-op"
}

// ------------------------------------------------------------ generation (runs the real queue)

type genCase struct {
	b       strings.Builder
	nextVal int
	left    []int // operations still to start, per thread
	progs   [][]string
}

func (g *genCase) emit(s string) bool {
	fmt.Fprintln(&g.b, s)
	r := step(strings.Fields(s))
	return !strings.HasPrefix(r, "bad")
}

// enabled events: a busy thread can step; an idle thread with remaining program can start
func (g *genCase) enabled() []int {
	var out []int
	for i, w := range st.ws {
		if w.busy || len(g.progs[i]) > 0 {
			out = append(out, i)
		}
	}
	return out
}

func (g *genCase) advance(tid int) {
	w := st.ws[tid]
	if w.busy {
		g.emit(fmt.Sprintf("step %d", tid))
		return
	}
	op := g.progs[tid][0]
	g.progs[tid] = g.progs[tid][1:]
	if op == "enq" {
		g.nextVal++
		g.emit(fmt.Sprintf("start %d enq %d", tid, g.nextVal))
	} else {
		g.emit(fmt.Sprintf("start %d %s", tid, op))
	}
}

func randomProgs(r *util.Rng, nthreads, maxOps int) [][]string {
	progs := make([][]string, nthreads)
	for i := range progs {
		n := 1 + r.Intn(maxOps)
		for j := 0; j < n; j++ {
			progs[i] = append(progs[i], []string{"enq", "enq", "deq", "deq", "len"}[r.Intn(5)])
		}
	}
	return progs
}

func genRandom(r *util.Rng, id int, out *strings.Builder, hist map[string]int) {
	nthreads := r.Pick(1, 2, 2, 3, 3, 4, 6)
	g := &genCase{progs: randomProgs(r, nthreads, 4)}
	fmt.Fprintf(out, "case %d\n", id)
	g.emit(fmt.Sprintf("init %d", nthreads))
	mode := r.Intn(3)
	hist[[]string{"uniform", "pct", "burst"}[mode]]++
	prio := r.Perm(nthreads)
	changes := map[int]bool{}
	for i := 0; i < r.Intn(4); i++ {
		changes[r.Intn(60)] = true
	}
	cur, burst := -1, 0
	for n := 0; n < 400; n++ {
		en := g.enabled()
		if len(en) == 0 {
			break
		}
		var tid int
		switch mode {
		case 0:
			tid = en[r.Intn(len(en))]
		case 1: // PCT-style: highest priority enabled thread; at a change point it drops to the lowest
			best := -1
			for _, t := range en {
				if best == -1 || prio[t] > prio[best] {
					best = t
				}
			}
			tid = best
			if changes[n] {
				prio[tid] = -n
			}
		default:
			if burst == 0 || !contains(en, cur) {
				cur = en[r.Intn(len(en))]
				burst = 1 + r.Intn(7)
			}
			tid = cur
			burst--
		}
		g.advance(tid)
	}
	out.WriteString(g.b.String())
}

func contains(xs []int, x int) bool {
	for _, y := range xs {
		if y == x {
			return true
		}
	}
	return false
}

// genExhaustive enumerates every schedule of the given thread programs with at most
// `bound` preemptions (a preemption = switching away from a thread that could continue).
func genExhaustive(progs [][]string, bound int, id *int, out *strings.Builder, limit int) int {
	count := 0
	var rec func(prefix []int)
	replay := func(prefix []int) *genCase {
		g := &genCase{}
		for _, p := range progs {
			g.progs = append(g.progs, append([]string{}, p...))
		}
		g.emit(fmt.Sprintf("init %d", len(progs)))
		for _, t := range prefix {
			g.advance(t)
		}
		return g
	}
	rec = func(prefix []int) {
		if count >= limit {
			return
		}
		g := replay(prefix)
		en := g.enabled()
		if len(en) == 0 || len(prefix) > 120 {
			fmt.Fprintf(out, "case %d\n", *id)
			*id++
			out.WriteString(g.b.String())
			count++
			return
		}
		// count preemptions so far
		pre := 0
		for i := 1; i < len(prefix); i++ {
			if prefix[i] != prefix[i-1] {
				// was prefix[i-1] still enabled at that point? approximated by: it appears later in the prefix or is enabled now
				pre++
			}
		}
		last := -1
		if len(prefix) > 0 {
			last = prefix[len(prefix)-1]
		}
		for _, t := range en {
			if t != last && last != -1 && contains(en, last) && pre >= bound {
				continue
			}
			rec(append(append([]int{}, prefix...), t))
		}
	}
	rec(nil)
	return count
}

func main() {
	mode := flag.String("mode", "exec", "gen|exec")
	seed := flag.Int64("seed", 1, "PRNG seed")
	cases := flag.Int("cases", 500, "number of random cases")
	exh := flag.Int("exhaustive", 0, "number of exhaustively enumerated schedules (0 = none)")
	flag.Parse()
	switch *mode {
	case "gen":
		os.Setenv("VERIF_ORACLE_OUT", os.DevNull)
		r := util.NewRng(*seed)
		var out strings.Builder
		hist := map[string]int{}
		id := 0
		for ; id < *cases; id++ {
			genRandom(r, id, &out, hist)
		}
		if *exh > 0 {
			sets := [][][]string{
				{{"enq"}, {"deq"}}, {{"enq"}, {"enq"}}, {{"deq"}, {"deq"}},
				{{"enq", "deq"}, {"deq"}}, {{"enq"}, {"enq"}, {"deq"}}, {{"enq", "enq"}, {"deq", "deq"}},
				{{"enq"}, {"deq"}, {"len"}}, {{"enq", "deq"}, {"enq", "deq"}},
			}
			per := *exh / len(sets)
			for _, ps := range sets {
				n := genExhaustive(ps, 3, &id, &out, per)
				hist[fmt.Sprintf("exhaustive%v", ps)] = n
			}
		}
		os.Stdout.WriteString(out.String())
		fmt.Fprintf(os.Stderr, "DIST %v\n", hist)
	case "exec":
		util.Exec(func(string) {}, step)
		if util.Fails > 0 {
			os.Exit(3)
		}
	}
}
