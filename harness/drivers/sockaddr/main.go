// Driver for C17 (conversion half): pkg/socket/sockaddr.go.
package main

import (
	"flag"
	"fmt"
	"net"
	"os"
	"strconv"
	"strings"

	"golang.org/x/sys/unix"

	"github.com/panjf2000/gnet/v2/pkg/pool/byteslice"
	"github.com/panjf2000/gnet/v2/pkg/socket"

	"gnetverif/harness/util"
)

func saStr(sa unix.Sockaddr) string {
	switch x := sa.(type) {
	case *unix.SockaddrInet4:
		return fmt.Sprintf("sa=inet4 port=%d addr=%s", x.Port, util.Hex(x.Addr[:]))
	case *unix.SockaddrInet6:
		return fmt.Sprintf("sa=inet6 port=%d zone=%d addr=%s", x.Port, x.ZoneId, util.Hex(x.Addr[:]))
	case *unix.SockaddrUnix:
		return "sa=unix name=" + util.Hex([]byte(x.Name))
	}
	return "sa=nil"
}

func atoi(s string) int { n, _ := strconv.Atoi(s); return n }

// retained: addresses handed out earlier in this case must keep their value whatever is converted later
// ("these values stay correct for the whole life of the connection")
type kept struct {
	addr net.Addr
	snap string
}

var retained []kept

func recheck() {
	// churn in the size class the zone scratch buffers come from: memory still referenced by a
	// handed-out address must not be handed out again
	b := byteslice.Get(32)
	for i := range b {
		b[i] = '#'
	}
	byteslice.Put(b)
	for _, k := range retained {
		if now := k.addr.String(); now != k.snap {
			util.Fail(fmt.Sprintf("C17: an address reported earlier as %q reads %q after later conversions (its memory was reused)", k.snap, now))
			retained = nil
			return
		}
	}
}

func step(ws []string) string {
	defer recheck()
	switch ws[0] {
	case "ifs":
		retained = nil
		return "ok"
	case "conv", "convudp":
		var ip net.IP
		if ws[2] != "1" {
			ip = net.IP(util.UnHex(ws[1]))
			if ip == nil {
				ip = net.IP{}
			}
		}
		port, zone := atoi(ws[3]), string(util.UnHex(ws[4]))
		var sa unix.Sockaddr
		var back net.Addr
		func() {
			defer func() {
				if r := recover(); r != nil {
					util.Fail(fmt.Sprintf("conversion of ip=%s zone=%q panicked: %v", ws[1], zone, r))
				}
			}()
			if ws[0] == "conv" {
				sa = socket.TCPAddrToSockaddr(&net.TCPAddr{IP: ip, Port: port, Zone: zone})
				if sa != nil {
					back = socket.SockaddrToTCPOrUnixAddr(sa)
				}
			} else {
				sa = socket.UDPAddrToSockaddr(&net.UDPAddr{IP: ip, Port: port, Zone: zone})
				if sa != nil {
					back = socket.SockaddrToUDPAddr(sa)
				}
			}
		}()
		if back != nil {
			if len(retained) >= 64 {
				retained = retained[1:]
			}
			retained = append(retained, kept{back, strings.Clone(back.String())})
		}
		bs := "back=nil"
		var bip net.IP
		bport, bzone := 0, ""
		switch b := back.(type) {
		case *net.TCPAddr:
			bip, bport, bzone = b.IP, b.Port, b.Zone
			bs = fmt.Sprintf("back=ip:%s port=%d zone=%s", util.Hex(b.IP), b.Port, util.Hex([]byte(b.Zone)))
		case *net.UDPAddr:
			bip, bport, bzone = b.IP, b.Port, b.Zone
			bs = fmt.Sprintf("back=ip:%s port=%d zone=%s", util.Hex(b.IP), b.Port, util.Hex([]byte(b.Zone)))
		}
		// oracle: valid addresses survive the round trip
		if ip != nil && (len(ip) == 4 || len(ip) == 16) {
			if back == nil {
				util.Fail(fmt.Sprintf("valid address %v zone %q does not convert", ip, zone))
			} else {
				if !bip.Equal(ip) || bport != port {
					util.Fail(fmt.Sprintf("round trip changed %v:%d into %v:%d", ip, port, bip, bport))
				}
				v4 := ip.To4() != nil
				if validZone(zone) && !sameZone(zone, bzone) {
					util.Fail(fmt.Sprintf("round trip changed zone %q into %q", zone, bzone))
				}
				_ = v4
			}
		} else if ip != nil && sa != nil {
			util.Fail(fmt.Sprintf("invalid IP of length %d converts to %s", len(ip), saStr(sa)))
		}
		return saStr(sa) + " " + bs
	case "convunix": // convunix <hex network> <hex name>: a Unix-domain address through NetAddrToSockaddr and back
		netw, name := string(util.UnHex(ws[1])), string(util.UnHex(ws[2]))
		supported := netw == "unix" || netw == "unixgram" || netw == "unixpacket"
		reply := "sa=panic back=nil"
		func() {
			defer func() {
				if r := recover(); r != nil {
					util.Fail(fmt.Sprintf("C17: conversion of the Unix address {%q %q} panicked: %v", netw, name, r))
				}
			}()
			sa := socket.NetAddrToSockaddr(&net.UnixAddr{Net: netw, Name: name})
			if sa == nil {
				if supported {
					util.Fail(fmt.Sprintf("C17: the Unix address {%q %q} does not convert", netw, name))
				}
				reply = "sa=nil back=nil"
				return
			}
			if u, ok := sa.(*unix.SockaddrUnix); ok && u == nil {
				util.Fail(fmt.Sprintf("C17: the unsupported network %q yields a non-nil result holding a nil pointer instead of nil", netw))
				reply = "sa=typed-nil back=nil"
				return
			}
			if !supported {
				util.Fail(fmt.Sprintf("C17: the unsupported network %q converts to %s", netw, saStr(sa)))
			}
			back := "back=nil"
			if a, ok := socket.SockaddrToTCPOrUnixAddr(sa).(*net.UnixAddr); ok && a != nil {
				back = "back=unix:" + util.Hex([]byte(a.Name))
				if a.Name != name {
					util.Fail(fmt.Sprintf("C17: round trip changed the Unix name %q into %q", name, a.Name))
				}
			} else if supported {
				util.Fail(fmt.Sprintf("C17: the Unix address {%q %q} does not convert back", netw, name))
			}
			reply = saStr(sa) + " " + back
		}()
		return reply
	case "itod":
		n, _ := strconv.ParseUint(ws[1], 10, 64)
		s := socket.VerifItod(uint(n))
		if s != strconv.FormatUint(n, 10) {
			util.Fail(fmt.Sprintf("itod(%d) = %q", n, s))
		}
		return "s=" + util.Hex([]byte(s))
	case "dtoi":
		n, _, ok := socket.VerifDtoi(string(util.UnHex(ws[1])))
		return fmt.Sprintf("n=%d ok=%s", n, util.B(ok))
	case "zone2int":
		return fmt.Sprintf("n=%d", socket.VerifZoneToInt(string(util.UnHex(ws[1]))))
	case "zone2str":
		n, _ := strconv.ParseUint(ws[1], 10, 32)
		return "s=" + util.Hex([]byte(socket.VerifZoneToString(uint32(n))))
	}
	return "bad-op"
}

// validZone: empty, the name of an interface of this host, or a canonical decimal index below 0xFFFFFF
func validZone(z string) bool {
	if z == "" {
		return true
	}
	if _, err := net.InterfaceByName(z); err == nil {
		return true
	}
	n, err := strconv.Atoi(z)
	return err == nil && n > 0 && n < 0xFFFFFF && strconv.Itoa(n) == z
}

// sameZone: equal, or one is the index and the other the name of the same interface
func sameZone(a, b string) bool {
	if a == b {
		return true
	}
	idx := func(z string) int {
		if ifi, err := net.InterfaceByName(z); err == nil {
			return ifi.Index
		}
		n, err := strconv.Atoi(z)
		if err != nil {
			return -1
		}
		return n
	}
	return idx(a) >= 0 && idx(a) == idx(b)
}

func main() {
	mode := flag.String("mode", "exec", "gen|exec")
	seed := flag.Int64("seed", 1, "PRNG seed")
	cases := flag.Int("cases", 1000, "number of cases")
	flag.Parse()
	switch *mode {
	case "gen":
		r := util.NewRng(*seed)
		var b strings.Builder
		ifs, _ := net.Interfaces()
		var tbl []string
		var names []string
		var idxs []int
		for _, i := range ifs {
			tbl = append(tbl, fmt.Sprintf("%s:%d", util.Hex([]byte(i.Name)), i.Index))
			names = append(names, i.Name)
			idxs = append(idxs, i.Index)
		}
		ifsLine := "ifs -"
		if len(tbl) > 0 {
			ifsLine = "ifs " + strings.Join(tbl, ",")
		}
		zoneOf := func() string {
			switch r.Intn(7) {
			case 0:
				return ""
			case 1:
				if len(names) > 0 {
					return names[r.Intn(len(names))]
				}
			case 2:
				return strconv.Itoa(r.Pick(1, 2, 3, 7, 99, 77777, 16777214, 16777215, 16777216, 99999999, 1+r.Intn(1<<24)))
			case 3:
				if len(idxs) > 0 {
					return strconv.Itoa(idxs[r.Intn(len(idxs))])
				}
			case 4:
				return []string{"nosuchif0", "eth99", "0", "007", "12ab", "-1", " 5"}[r.Intn(7)]
			}
			return ""
		}
		ipOf := func() (string, string) {
			rb := func(n int) []byte {
				p := make([]byte, n)
				for i := range p {
					p[i] = byte(r.Intn(256))
				}
				return p
			}
			switch r.Intn(9) {
			case 0:
				return "-", "1" // nil
			case 1:
				return util.Hex(rb(4)), "0"
			case 2: // v4-mapped 16-byte form
				return util.Hex(append([]byte{0, 0, 0, 0, 0, 0, 0, 0, 0, 0, 255, 255}, rb(4)...)), "0"
			case 3:
				return util.Hex(rb(16)), "0"
			case 4:
				p := make([]byte, 16)
				p[0], p[1], p[15] = 0xfe, 0x80, byte(1+r.Intn(200))
				return util.Hex(p), "0"
			case 5:
				return util.Hex(rb(r.Pick(1, 2, 3, 5, 8, 15, 17, 32))), "0" // invalid lengths
			case 6:
				return "-", "0" // empty, non-nil
			case 7:
				return util.Hex([]byte{127, 0, 0, 1}), "0"
			}
			return util.Hex(make([]byte, 16)), "0"
		}
		for c := 0; c < *cases; c++ {
			fmt.Fprintf(&b, "case %d\n%s\n", c, ifsLine)
			for i := 0; i < 4; i++ {
				ip, isNil := ipOf()
				z := zoneOf()
				op := "conv"
				if r.Intn(3) == 0 {
					op = "convudp"
				}
				fmt.Fprintf(&b, "%s %s %s %d %s\n", op, ip, isNil, r.Pick(0, 1, 80, 65535, r.Intn(65536)), util.Hex([]byte(z)))
			}
			fmt.Fprintf(&b, "convunix %s %s\n", util.Hex([]byte([]string{"unix", "unixgram", "unixpacket", "", "unixfoo", "tcp", "udp", "UNIX", "unix "}[r.Intn(9)])),
				util.Hex([]byte([]string{"/tmp/a.sock", "", "@abstract", "rel/x.sock", "/tmp/\x00z"}[r.Intn(5)])))
			fmt.Fprintf(&b, "itod %d\n", r.Pick(0, 1, 9, 10, 77777, 1<<24-1, 1<<32-1, r.Intn(1<<31)))
			fmt.Fprintf(&b, "dtoi %s\n", util.Hex([]byte(zoneOf()+[]string{"", "x", "9"}[r.Intn(3)])))
			fmt.Fprintf(&b, "zone2int %s\n", util.Hex([]byte(zoneOf())))
			fmt.Fprintf(&b, "zone2str %d\n", r.Pick(0, 1, 2, 3, 99, 77777, 1<<24, 1<<32-1))
		}
		os.Stdout.WriteString(b.String())
		fmt.Fprintf(os.Stderr, "DIST interfaces=%v conv-per-case=4\n", names)
	case "exec":
		util.Exec(func(string) {}, step)
		if util.Fails > 0 {
			os.Exit(3)
		}
	}
}
