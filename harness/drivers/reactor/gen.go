package main

import (
	"fmt"
	"os"
	"strings"

	"gnetverif/harness/util"
)

type sgen struct {
	r           *util.Rng
	b           strings.Builder
	ctr         int
	nconn       int
	live        []string // cids believed open
	dead        []string // cids that were closed: their handles are stale
	et          bool
	rbc         int
	hist        map[string]int
	big         bool
	hasDup      bool // some handler program of this case keeps a duplicate of a descriptor
	hasDelFault bool // an EPOLL_CTL_DEL failure has been injected in this case
}

func (g *sgen) emit(s string) {
	f := strings.Fields(s)
	g.hist[f[0]]++
	switch f[0] { // the distribution of what the handler programs do, of the faults and of the asynchronous requests
	case "prog":
		for _, h := range strings.Split(f[2], ";") {
			op := strings.SplitN(h, ":", 2)[0]
			if op == "ret" {
				op = h
			}
			g.hist["in-"+f[1]+":"+op]++
		}
	case "inject":
		if f[3] == "errno" {
			g.hist["fault:"+f[1]+":"+f[4]]++
		} else {
			g.hist["short:"+f[1]]++
		}
	case "async":
		g.hist["async:"+f[2]]++
	}
	fmt.Fprintln(&g.b, s)
}

func (g *sgen) payload(n int) string {
	p := make([]byte, n)
	for i := range p {
		g.ctr++
		p[i] = byte((g.ctr*7 + 3) % 256)
	}
	return util.Hex(p)
}

func (g *sgen) size() int {
	return g.r.Pick(1, 2, 3, 5, 8, 16, 64, 100, 1000, 1023, 1024, 1025, 1+g.r.Intn(50), 1+g.r.Intn(3000))
}

// a handler program for OnTraffic: how much it consumes and what it writes back
func (g *sgen) trafficProg() string {
	var hops []string
	n := g.r.Intn(4)
	for i := 0; i < n; i++ {
		k := g.r.Pick(-1, 0, 1, 2, 3, 7, 64, 1024, g.size())
		switch g.r.Intn(12) {
		case 0, 1:
			hops = append(hops, fmt.Sprintf("next:%d", k))
		case 2:
			if k <= 0 {
				k = 5
			}
			hops = append(hops, fmt.Sprintf("read:%d", k))
		case 3:
			hops = append(hops, fmt.Sprintf("peek:%d", k), fmt.Sprintf("discard:%d", k))
		case 4:
			hops = append(hops, fmt.Sprintf("discard:%d", k))
		case 5:
			if g.r.Intn(3) == 0 && !g.hasDelFault { // the user takes a duplicate of the descriptor and keeps it beyond the connection's life
				hops = append(hops, "dup")
				g.hasDup = true
			} else {
				hops = append(hops, "inbuf", "outbuf")
			}
		case 6, 7:
			hops = append(hops, "write:"+g.payload(g.size()))
		case 8:
			k := 1 + g.r.Intn(4)
			if g.big && g.r.Intn(3) == 0 {
				k = g.r.Pick(1023, 1024, 1025, 1030)
			}
			segs := make([]string, k)
			for j := range segs {
				segs[j] = g.payload(1 + g.r.Intn(40))
			}
			hops = append(hops, "writev:"+strings.Join(segs, ","))
		case 9:
			hops = append(hops, fmt.Sprintf("writeto:%d:nil,%d:nil", g.size(), 1<<30))
		case 10:
			n := g.size()
			if g.big {
				hops = append(hops, fmt.Sprintf("readbulk:%d", g.r.Pick(5000, 100000, 300000, 1000000)), "flush")
			} else {
				hops = append(hops, fmt.Sprintf("readfrom:%d:eof", n), "flush")
			}
		case 11:
			if g.r.Intn(3) == 0 {
				hops = append(hops, "asyncwritev:"+g.payload(1+g.r.Intn(30))+","+g.payload(1+g.r.Intn(30)))
			} else {
				hops = append(hops, "asyncwrite:"+g.payload(g.size()))
			}
		}
	}
	ret := "none"
	switch g.r.Intn(25) {
	case 0:
		ret = "close"
	case 1:
		hops = append(hops, "elclose")
	case 2:
		hops = append(hops, "close")
	case 3:
		if g.r.Intn(2) == 0 { // the handler ends the engine, possibly after closing its own connection synchronously
			if g.r.Intn(2) == 0 {
				hops = append(hops, "elclose")
			}
			ret = "shutdown"
		}
	}
	return strings.Join(append(hops, "ret:"+ret), ";")
}

func (g *sgen) pickLive() string {
	if len(g.live) == 0 {
		return ""
	}
	return g.live[g.r.Intn(len(g.live))]
}

func (g *sgen) drop(cid string) {
	g.dead = append(g.dead, cid)
	for i, c := range g.live {
		if c == cid {
			g.live = append(g.live[:i], g.live[i+1:]...)
			return
		}
	}
}

func (g *sgen) connect() {
	g.emit("connect")
	g.emit("poll")
	g.nconn++
	g.live = append(g.live, fmt.Sprintf("c%d", g.nconn))
}

func (g *sgen) stream(id int, faults bool) {
	fmt.Fprintf(&g.b, "case %d\n", id)
	g.nconn, g.live, g.dead, g.hasDup, g.hasDelFault = 0, nil, nil, false, false
	g.big = id%10 == 9
	mode := g.r.Pick(0, 0, 1, 2)
	chunk := 0
	g.et = mode > 0
	if mode == 2 {
		chunk = g.r.Pick(1024, 2048, 4096)
	}
	g.rbc = g.r.Pick(0, 1024, 1024, 2048, 4096)
	wbc := g.r.Pick(0, 1024, 2048)
	proto := g.r.Pick(0, 0, 0, 1)
	g.emit(fmt.Sprintf("newloop %s %d %d %d %s", []string{"lt", "et", "et"}[mode], chunk, g.rbc, wbc, []string{"unix", "tcp"}[proto]))
	lowThreshold := g.r.Intn(4) == 0
	if lowThreshold { // the poller's overflow path (low-priority tasks are shunted to the second queue) within reach
		g.emit(fmt.Sprintf("threshold %d", g.r.Pick(0, 1, 2, 3)))
	}
	open := "ret:none"
	switch g.r.Intn(4) {
	case 0:
		open = "out:" + g.payload(g.size()) + ";ret:none"
	case 1:
		open = "out:" + g.payload(g.size()) + ";write:" + g.payload(g.size()) + ";ret:none"
	case 2:
		if g.r.Intn(4) == 0 {
			open = []string{"elclose;out:" + g.payload(3) + ";ret:none", "out:" + g.payload(5) + ";ret:close", "close;ret:none", "out:;ret:none"}[g.r.Intn(4)]
		}
	}
	g.emit("prog open " + open)
	g.emit("prog traffic " + g.trafficProg())
	// what the handler does inside OnClose: mostly nothing; sometimes it says goodbye, flushes, or closes again
	closeProg := "ret:none"
	if g.r.Intn(3) == 0 {
		closeProg = []string{
			"write:" + g.payload(g.size()) + ";ret:none",
			"writev:" + g.payload(3) + "," + g.payload(40) + ";ret:none",
			"flush;ret:none",
			"elclose;ret:none",
			"close;ret:none",
			"asyncwrite:" + g.payload(4) + ";ret:none",
			"inbuf;outbuf;next:-1;ret:none",
			"write:" + g.payload(5) + ";ret:close",
		}[g.r.Intn(8)]
	}
	g.emit("prog close " + closeProg)
	g.connect()
	if lowThreshold {
		// with the overflow path within reach: asynchronous writes of both kinds, wake-ups and a late write, all
		// issued by one goroutine while the loop sleeps - the writes must be carried out in issue order
		for k := 0; k < 3+g.r.Intn(4); k++ {
			switch g.r.Intn(4) {
			case 0:
				g.emit(fmt.Sprintf("async c1 writev %s,%s", g.payload(1+g.r.Intn(20)), g.payload(1+g.r.Intn(20))))
			case 1:
				g.emit("async c1 wake")
			default:
				g.emit(fmt.Sprintf("async c1 write %s", g.payload(1+g.r.Intn(20))))
			}
		}
		g.emit("poll")
	}
	nops := 6 + g.r.Intn(30)
	for i := 0; i < nops; i++ {
		cid := g.pickLive()
		switch g.r.Weighted([]int{30, 30, 8, 6, 3, 3, 8, 4, 6, 3, 4, 2, 2, 3}) {
		case 13:
			// a connection with a real backlog (small kernel send buffer, a peer that does not read, more output than the
			// socket takes) meets an I/O failure: it is closed while output is waiting and the socket is full - the
			// failure has to stay on this connection and the loop has to go on
			if faults && cid != "" && proto == 0 {
				g.emit(fmt.Sprintf("sndbuf %s 1", cid))
				g.emit(fmt.Sprintf("prog traffic write:%s;write:%s;write:%s;ret:none", g.payload(3000), g.payload(3000), g.payload(2000+g.r.Intn(1000))))
				g.emit(fmt.Sprintf("send %s %s", cid, g.payload(3)))
				g.emit("poll")
				call := []string{"read", "read", "epoll_ctl_ModRead", "epoll_ctl_ModReadWrite"}[g.r.Intn(4)]
				g.emit(fmt.Sprintf("inject %s %s errno %s", call, cid, []string{"ECONNRESET", "ETIMEDOUT", "EIO", "ENOMEM"}[g.r.Intn(4)]))
				g.emit(fmt.Sprintf("send %s %s", cid, g.payload(3)))
				g.emit("poll")
				g.emit("poll")
				g.emit("prog traffic " + g.trafficProg())
			}
		case 12:
			// accept(2) fails: the errors the code declares retryable must have no visible effect (the connection is
			// accepted by the next round), any other ends the loop
			if faults && len(g.live) < 4 {
				errno := []string{"EINTR", "EAGAIN", "ECONNRESET", "ECONNABORTED", "EINTR", "ECONNABORTED", "EMFILE"}[g.r.Intn(7)]
				g.emit("inject accept L0 errno " + errno)
				g.connect()
				g.emit("poll")
			}
		case 10:
			// a request through the stale handle of a closed connection, typically after its descriptor
			// number has been handed to a newer connection
			if len(g.dead) > 0 {
				d := g.dead[g.r.Intn(len(g.dead))]
				if g.r.Intn(2) == 0 && len(g.live) < 4 {
					g.connect()
				}
				switch g.r.Intn(3) {
				case 0:
					g.emit(fmt.Sprintf("async %s close", d))
				case 1:
					g.emit(fmt.Sprintf("async %s wake", d))
				case 2:
					g.emit(fmt.Sprintf("async %s write %s", d, g.payload(3)))
				}
				g.emit("poll")
			}
		case 11:
			// the connection ends while a write of the handler (for instance inside OnClose) is bound to fail
			if faults && cid != "" {
				g.emit(fmt.Sprintf("inject %s %s errno %s", []string{"write", "writev"}[g.r.Intn(2)], cid, []string{"EPIPE", "ECONNRESET"}[g.r.Intn(2)]))
				g.emit("peerclose " + cid)
				g.emit("poll")
				g.drop(cid)
			}
		case 0:
			if cid != "" {
				n := g.size()
				if g.r.Intn(6) == 0 && g.rbc > 0 {
					n = g.rbc // exactly the read-buffer size
				}
				g.emit(fmt.Sprintf("send %s %s", cid, g.payload(n)))
			}
		case 1:
			g.emit("poll")
		case 2:
			if cid != "" {
				g.emit(fmt.Sprintf("peerread %s %d", cid, g.r.Pick(1, 10, 1000, 100000)))
			}
		case 3:
			g.emit("prog traffic " + g.trafficProg())
		case 4:
			if cid != "" { // data together with FIN
				g.emit(fmt.Sprintf("send %s %s", cid, g.payload(g.size())))
				g.emit("shutwr " + cid)
				g.emit("poll")
				g.drop(cid)
			}
		case 5:
			if cid != "" {
				g.emit("peerclose " + cid)
				g.emit("poll")
				g.drop(cid)
			}
		case 6:
			if cid != "" {
				switch g.r.Intn(5) {
				case 4:
					// a burst of asynchronous writes of both kinds issued by one goroutine: carried out in issue order
					for k := 0; k < 2+g.r.Intn(4); k++ {
						if g.r.Intn(2) == 0 {
							g.emit(fmt.Sprintf("async %s writev %s,%s", cid, g.payload(1+g.r.Intn(20)), g.payload(1+g.r.Intn(20))))
						} else {
							g.emit(fmt.Sprintf("async %s write %s", cid, g.payload(1+g.r.Intn(20))))
						}
					}
				case 0, 1:
					g.emit(fmt.Sprintf("async %s write %s", cid, g.payload(g.size())))
				case 2:
					g.emit(fmt.Sprintf("async %s wake", cid))
				case 3:
					g.emit(fmt.Sprintf("async %s close", cid))
					g.emit("poll")
					g.drop(cid)
				}
			}
		case 7:
			if len(g.live) < 4 {
				g.connect()
			}
		case 8:
			if cid != "" { // kernel hands out or accepts less than offered
				g.emit(fmt.Sprintf("inject %s %s short %d", []string{"read", "write", "writev"}[g.r.Intn(3)], cid, g.r.Pick(1, 2, 7, 100)))
			}
		case 9:
			if faults && cid != "" {
				call := []string{"read", "write", "writev", "epoll_ctl_ModRead", "epoll_ctl_ModReadWrite", "epoll_ctl_Delete", "close"}[g.r.Intn(7)]
				if g.hasDup && call == "epoll_ctl_Delete" {
					// a failing EPOLL_CTL_DEL together with a duplicate the user keeps leaves a poller entry that no
					// close(2) removes any more: not generated (DESIGN.md, section 8, observations)
					call = "epoll_ctl_ModRead"
				}
				if call == "epoll_ctl_Delete" {
					g.hasDelFault = true
				}
				errno := []string{"ECONNRESET", "EPIPE", "ETIMEDOUT", "EBADF", "ENOMEM", "EINVAL", "EAGAIN", "EIO"}[g.r.Intn(8)]
				g.emit(fmt.Sprintf("inject %s %s errno %s", call, cid, errno))
			}
		}
	}
	for i := 0; i < 3; i++ {
		g.emit("poll")
	}
	for _, cid := range g.live {
		g.emit("drain " + cid)
	}
	g.emit("stop")
	g.emit("poll")
	g.emit("poll")
}

func (g *sgen) udpCase(id int) {
	fmt.Fprintf(&g.b, "case %d\n", id)
	rbc := g.r.Pick(0, 2048, 1024, 4096)
	g.emit(fmt.Sprintf("newloop lt 0 %d 0 udp", rbc))
	hops := []string{"ret:none", "next:-1;ret:none", "next:3;ret:none", "peek:-1;write:" + g.payload(5) + ";ret:none", "read:2;write:" + g.payload(1+g.r.Intn(100)) + ";ret:none",
		"next:-1;write:;ret:none", "write:" + g.payload(g.r.Pick(0, 1, 1472, 3000)) + ";write:;ret:none", "write:" + g.payload(2) + ";write:" + g.payload(3) + ";ret:none"}
	g.emit("prog traffic " + hops[g.r.Intn(len(hops))])
	n := 2 + g.r.Intn(6)
	for i := 0; i < n; i++ {
		size := g.r.Pick(0, 1, 2, 100, 1472, 2000)
		if rbc > 0 && g.r.Intn(3) == 0 { // at the read-buffer size: the largest payload the property covers, and one below
			size = g.r.Pick(rbc, rbc-1, rbc, rbc/2)
		}
		g.emit("udpsend " + g.payload(size))
		if g.r.Intn(2) == 0 {
			g.emit("poll")
			g.emit("udprecv")
		}
	}
	for i := 0; i < 3; i++ {
		g.emit("poll")
	}
	g.emit("udprecv")
	g.emit("stop")
	g.emit("poll")
	g.emit("poll")
}

func generate(seed int64, cases int, kind string) {
	g := &sgen{r: util.NewRng(seed), hist: map[string]int{}}
	for i := 0; i < cases; i++ {
		switch kind {
		case "udp":
			g.udpCase(i)
		case "fault":
			g.stream(i, true)
		default:
			g.stream(i, false)
		}
	}
	os.Stdout.WriteString(g.b.String())
	fmt.Fprintf(os.Stderr, "DIST %v\n", g.hist)
}
