// Driver for the reactor properties (C01, C02, C04, C07, C08, C18): one REAL gnet event loop on
// real sockets, run step by step. The loop goroutine parks before every epoll_wait; `poll`
// lets it run one round (dispatch + queued tasks). Every system call of the I/O path goes
// through the pass-through shim verifsys (logged, optionally shortened or failed on request),
// entries of the loop-side functions and every callback / Conn method call are logged.
// The log of a round is the reply of `poll`; it is at the same time the input of the Lean
// acceptor (kernel results, handler operations are inputs; system call requests, callbacks and
// method results are predictions to be matched).
package main

import (
	"bytes"
	"flag"
	"fmt"
	"io"
	"net"
	"os"
	"regexp"
	"runtime"
	"strconv"
	"strings"
	"time"

	"golang.org/x/sys/unix"

	gnet "github.com/panjf2000/gnet/v2"
	vs "github.com/panjf2000/gnet/v2/pkg/verifsched"
	vsys "github.com/panjf2000/gnet/v2/pkg/verifsys"

	"gnetverif/harness/util"
)

// ---------------------------------------------------------------- state

type connInfo struct {
	cid        string
	fd         int
	peer       net.Conn
	udpPeer    *net.UDPConn
	sent       []byte // peer -> server, in order
	finSent    bool
	consumed   []byte // what the handler obtained through read methods
	delivered  int    // bytes returned by successful read(2) calls
	accepted   []byte // bytes accepted by write operations, in effect order
	toKernel   []byte // bytes the kernel accepted from write/writev on this connection
	peerGot    []byte
	opened     int
	closedCB   int
	fdClosed   bool
	closeErr   string
	inCallback bool
	faulted    bool   // an errno was injected on this connection
	fatal      string // a non-retryable errno was delivered to a system call made for this connection
	ioFailed   bool   // any injected errno (also one that struck while the connection was being closed)
}

type state struct {
	loop      *gnet.VerifLoop
	grant     chan struct{}
	log       []string
	names     map[int]string    // fd number -> current symbolic name
	byPtr     map[string]string // connection object -> symbolic name (bound at register0)
	keptDups  []int             // descriptors Conn.Dup handed to the "user" (this driver): the user's, never the framework's
	conns     map[string]*connInfo
	order     []string
	pending   []net.Conn // connected peers not yet accepted
	nconn     int
	progs     map[string]string // callback kind -> hop program
	directive map[string][]vsys.Directive
	exited    bool
	blocked   bool
	proto     string
	addr      string
	freshPos  int
	udp       *connInfo
	et        bool
	sockDir   string
	ndup      int
}

var st *state

var fdRe = regexp.MustCompile(`\b(n?fd)=(-?\d+)`)

func nameOf(fd int) string {
	if n, ok := st.names[fd]; ok {
		return n
	}
	return "fd" + strconv.Itoa(fd)
}

// record canonicalises descriptor numbers and appends to the round's log; it also feeds the oracles.
func record(rec string) {
	f := strings.Fields(rec)
	if len(f) >= 2 && f[0] == "sys" && f[1] == "accept" { // sys accept fd=L -> nfd=N err=nil from=..
		if m := regexp.MustCompile(`nfd=(\d+) err=nil`).FindStringSubmatch(rec); m != nil {
			nfd, _ := strconv.Atoi(m[1])
			st.nconn++
			cid := fmt.Sprintf("c%d", st.nconn)
			st.names[nfd] = cid
			ci := &connInfo{cid: cid, fd: nfd}
			if len(st.pending) > 0 {
				ci.peer = st.pending[0]
				st.pending = st.pending[1:]
			}
			st.conns[cid] = ci
			st.order = append(st.order, cid)
		}
	}
	// the identity of the connection object (last value of an entry) decides the name: a stale handle keeps the
	// name of the connection it belonged to even when its descriptor number has been handed out again
	if len(f) >= 3 && f[0] == "enter" && strings.HasPrefix(f[len(f)-1], "p=") {
		ptr := f[len(f)-1]
		f = f[:len(f)-1]
		if n, err := strconv.Atoi(f[2]); err == nil {
			if f[1] == "register0" {
				st.byPtr[ptr] = nameOf(n)
			} else if name, ok := st.byPtr[ptr]; ok && name != nameOf(n) {
				f[2] = "fd=" + name
			}
		}
		rec = strings.Join(f, " ")
	}
	if len(f) >= 2 && f[0] == "sys" && f[1] == "dup" {
		if m := regexp.MustCompile(`nfd=(\d+) err=nil`).FindStringSubmatch(rec); m != nil {
			nfd, _ := strconv.Atoi(m[1])
			st.ndup++
			st.names[nfd] = fmt.Sprintf("d%d", st.ndup)
		}
	}
	if len(f) >= 3 && f[0] == "enter" && (f[1] == "asyncWrite" || f[1] == "asyncWritev") { // the asynchronous write takes effect now
		if n, err := strconv.Atoi(f[2]); err == nil {
			if ci := st.conns[nameOf(n)]; ci != nil && len(asyncQ[ci.cid]) > 0 {
				p := asyncQ[ci.cid][0]
				asyncQ[ci.cid] = asyncQ[ci.cid][1:]
				if !ci.fdClosed && ci.closedCB == 0 {
					ci.accepted = append(ci.accepted, p...)
				}
			}
		}
	}
	if len(f) >= 3 && f[0] == "enter" { // enter <fn> <fd> ...
		if n, err := strconv.Atoi(f[2]); err == nil {
			f[2] = "fd=" + strconv.Itoa(n)
			rec = strings.Join(f, " ")
		}
	}
	canon := fdRe.ReplaceAllStringFunc(rec, func(m string) string {
		kv := strings.SplitN(m, "=", 2)
		n, _ := strconv.Atoi(kv[1])
		if n < 0 {
			return m
		}
		return kv[0] + "=" + nameOf(n)
	})
	oracleSys(rec, canon)
	st.log = append(st.log, canon)
	if len(st.log) > roundBudget {
		// a round that does not end: the loop goroutine is parked here, inside the shim, for good (it would otherwise
		// go on making system calls and filling the log), and the driver is told
		select {
		case runaway <- struct{}{}:
		default:
		}
		select {}
	}
}

// roundBudget: more log entries than any generated round can produce (the largest: a few thousand for a 1000-segment writev)
const roundBudget = 20000

var runaway = make(chan struct{}, 1)

func fail(msg string) { util.Fail(msg) }

// oracleSys: C07 (descriptor ownership), C01/C02 byte accounting at the system-call boundary
func oracleSys(raw, canon string) {
	f := strings.Fields(canon)
	if len(f) < 3 || f[0] != "sys" {
		return
	}
	call := f[1]
	var fdName string
	for _, t := range f[2:] {
		if strings.HasPrefix(t, "fd=") {
			fdName = t[3:]
			break
		}
	}
	ci := st.conns[fdName]
	if strings.HasPrefix(fdName, "fd") && call != "accept" && call != "dup" {
		fail(fmt.Sprintf("C07: %s on descriptor %s that the framework does not own", call, fdName))
	}
	if ci != nil && ci.fdClosed && call != "accept" {
		fail(fmt.Sprintf("C07: %s on the descriptor number of %s after the framework closed it", call, ci.cid))
	}
	get := func(k string) string {
		for _, t := range f {
			if strings.HasPrefix(t, k+"=") {
				return t[len(k)+1:]
			}
		}
		return ""
	}
	if ci == nil {
		return
	}
	switch call {
	case "read":
		if n, _ := strconv.Atoi(get("n")); n > 0 && get("err") == "nil" {
			data := util.UnHex(get("data"))
			// what the kernel delivered must be the next bytes the peer sent (sanity of the harness)
			if ci.delivered+n > len(ci.sent) || !bytes.Equal(ci.sent[ci.delivered:ci.delivered+n], data) {
				fail(fmt.Sprintf("harness: kernel delivered bytes on %s that the peer did not send", ci.cid))
			}
			ci.delivered += n
		}
	case "write", "writev":
		if n, _ := strconv.Atoi(get("n")); n > 0 {
			data := util.UnHex(get("data"))
			ci.toKernel = append(ci.toKernel, data[:n]...)
			// C02: what is handed to the kernel must be the next accepted bytes, in order
			// (C02 speaks of connections that stay open until their output has drained: after a system call of this
			// connection has failed its accepted output may be dropped, whatever is written afterwards is not "next")
			if !ci.ioFailed && (len(ci.toKernel) > len(ci.accepted) || !bytes.Equal(ci.accepted[:len(ci.toKernel)], ci.toKernel)) {
				fail(fmt.Sprintf("C02: bytes handed to the kernel on %s are not the next accepted bytes (sent %d, accepted %d)", ci.cid, len(ci.toKernel), len(ci.accepted)))
			}
		}
	case "close":
		if ci.fdClosed {
			fail(fmt.Sprintf("C07: descriptor of %s closed twice", ci.cid))
		}
		ci.fdClosed = true
	}
}

// ---------------------------------------------------------------- handler

type handler struct{ gnet.BuiltinEventEngine }

func errName(err error) string {
	switch {
	case err == nil:
		return "nil"
	case err == net.ErrClosed:
		return "closed"
	}
	n := util.ErrName(err, nil)
	if strings.HasPrefix(n, "unknown") {
		return "other"
	}
	return n
}

// cidOf: the connection OBJECT decides the name (bound when the loop registered it); a stale handle whose descriptor
// number has been handed to a newer connection keeps its own name
func cidOf(c gnet.Conn) string {
	if name, ok := st.byPtr[fmt.Sprintf("p=%p", c)]; ok {
		return name
	}
	return nameOf(c.Fd())
}

func parseAction(s string) gnet.Action {
	switch s {
	case "close":
		return gnet.Close
	case "shutdown":
		return gnet.Shutdown
	}
	return gnet.None
}

// program text: hops separated by ';', last element "ret:<action>" (and for OnOpen "out:<hex>")
func runProgram(kind string, c gnet.Conn, ci *connInfo) (out []byte, action gnet.Action) {
	prog := st.progs[kind]
	if p, ok := st.progs[kind+"@"+cidOf(c)]; ok {
		prog = p
	}
	for _, h := range strings.Split(prog, ";") {
		h = strings.TrimSpace(h)
		if h == "" {
			continue
		}
		kv := strings.SplitN(h, ":", 2)
		arg := ""
		if len(kv) == 2 {
			arg = kv[1]
		}
		switch kv[0] {
		case "ret":
			action = parseAction(arg)
			continue
		case "out":
			out = util.UnHex(arg)
			if out == nil {
				out = []byte{}
			}
			continue
		}
		if kv[0] == "dup" && (ci == nil || ci.closedCB > 0 || ci.fdClosed) {
			// the connection has already been closed inside this callback (a failing write, an EventLoop.Close):
			// Conn.Dup does not look at the state of the connection and would act on a descriptor number the
			// connection no longer owns. What a handler does with a connection after its OnClose is outside the
			// properties; the hop is not executed (see DESIGN.md, section 8, observations)
			continue
		}
		st.log = append(st.log, "hop "+h) // what the handler calls (input) ...
		res := runHop(kv[0], arg, c, ci)
		st.log = append(st.log, "res "+res) // ... and what it gets back (prediction), after the system calls it caused
	}
	if kind == "open" {
		if ci != nil { // the reply of OnOpen takes effect when the callback returns
			ci.accepted = append(ci.accepted, out...)
		}
		st.log = append(st.log, fmt.Sprintf("ret out=%s action=%d", hexOrNil(out), action))
	} else {
		st.log = append(st.log, fmt.Sprintf("ret action=%d", action))
	}
	return
}

func hexOrNil(b []byte) string {
	if b == nil {
		return "nil"
	}
	return util.Hex(b)
}

func consume(ci *connInfo, what string, data []byte) {
	if ci == nil {
		return
	}
	ci.consumed = append(ci.consumed, data...)
	if len(ci.consumed) > len(ci.sent) || !bytes.Equal(ci.sent[:len(ci.consumed)], ci.consumed) {
		fail(fmt.Sprintf("C01: bytes obtained through %s on %s are not the next bytes of the peer's stream (consumed %d of %d sent)", what, ci.cid, len(ci.consumed), len(ci.sent)))
	}
}

func checkBuffered(c gnet.Conn, ci *connInfo) {
	if ci == nil || st.proto == "udp" || ci.closedCB > 0 || ci.fdClosed {
		return
	}
	if got := len(ci.consumed) + c.InboundBuffered(); got != ci.delivered {
		fail(fmt.Sprintf("C01: consumed %d + InboundBuffered %d != delivered %d on %s", len(ci.consumed), c.InboundBuffered(), ci.delivered, ci.cid))
	}
	if got := len(ci.toKernel) + c.OutboundBuffered(); got != len(ci.accepted) && !ci.fdClosed && !ci.ioFailed {
		fail(fmt.Sprintf("C02: handed to kernel %d + OutboundBuffered %d != accepted %d on %s", len(ci.toKernel), c.OutboundBuffered(), len(ci.accepted), ci.cid))
	}
}

// healthy: a write operation must not fail on a connection whose peer is alive and on which no fault was injected
func healthy(ci *connInfo, what string, err error) {
	if ci.finSent || ci.faulted {
		return
	}
	fail(fmt.Sprintf("C02: %s failed with %v on %s although its peer is alive and no fault was injected", what, err, ci.cid))
}

func runHop(op, arg string, c gnet.Conn, ci *connInfo) string {
	atoi := func(s string) int { n, _ := strconv.Atoi(s); return n }
	defer checkBuffered(c, ci)
	switch op {
	case "read":
		p := make([]byte, atoi(arg))
		n, err := c.Read(p)
		consume(ci, "Read", p[:n])
		return fmt.Sprintf("n=%d err=%s data=%s", n, errName(err), util.Hex(p[:n]))
	case "next":
		b, err := c.Next(atoi(arg))
		consume(ci, "Next", b)
		return fmt.Sprintf("n=%d err=%s data=%s", len(b), errName(err), util.Hex(b))
	case "peek":
		b, err := c.Peek(atoi(arg))
		if ci != nil && err == nil {
			end := len(ci.consumed) + len(b)
			if end > len(ci.sent) || !bytes.Equal(ci.sent[len(ci.consumed):end], b) {
				fail(fmt.Sprintf("C01: Peek on %s returned bytes that are not the next bytes of the stream", ci.cid))
			}
		}
		return fmt.Sprintf("n=%d err=%s data=%s", len(b), errName(err), util.Hex(b))
	case "discard":
		before := c.InboundBuffered()
		n, err := c.Discard(atoi(arg))
		if ci != nil {
			want := atoi(arg)
			if want <= 0 || want > before {
				want = before
			}
			if n != want {
				fail(fmt.Sprintf("C01: Discard(%s) = %d with %d readable on %s", arg, n, before, ci.cid))
			}
			if n <= len(ci.sent)-len(ci.consumed) {
				consume(ci, "Discard", ci.sent[len(ci.consumed):len(ci.consumed)+n])
			} else {
				fail(fmt.Sprintf("C01: Discard on %s removed %d bytes, only %d were deliverable", ci.cid, n, len(ci.sent)-len(ci.consumed)))
			}
		}
		return fmt.Sprintf("n=%d err=%s", n, errName(err))
	case "inbuf":
		return fmt.Sprintf("n=%d", c.InboundBuffered())
	case "outbuf":
		return fmt.Sprintf("n=%d", c.OutboundBuffered())
	case "write":
		p := util.UnHex(arg)
		open := ci != nil && !ci.fdClosed
		mark := 0
		if open { // the bytes count as accepted while the call runs (it may hand them to the kernel at once)
			mark = len(ci.accepted)
			ci.accepted = append(ci.accepted, p...)
		}
		n, err := c.Write(p)
		if ci == nil && err == nil && c.LocalAddr() != nil && strings.HasPrefix(c.LocalAddr().Network(), "udp") {
			udpExpect = append(udpExpect, append([]byte{}, p...))
		}
		if open && err != nil {
			ci.accepted = ci.accepted[:mark+n]
			healthy(ci, "Write", err)
		}
		if open && err == nil && n != len(p) {
			fail(fmt.Sprintf("C02: Write(%d bytes) = %d without error on %s", len(p), n, ci.cid))
		}
		return fmt.Sprintf("n=%d err=%s", n, errName(err))
	case "writev":
		var bs [][]byte
		var all []byte
		for _, h := range strings.Split(arg, ",") {
			b := util.UnHex(h)
			bs = append(bs, b)
			all = append(all, b...)
		}
		open := ci != nil && !ci.fdClosed
		mark := 0
		if open {
			mark = len(ci.accepted)
			ci.accepted = append(ci.accepted, all...)
		}
		n, err := c.Writev(bs)
		if open && err != nil {
			ci.accepted = ci.accepted[:mark+n]
			healthy(ci, "Writev", err)
		}
		if open && err == nil && n != len(all) {
			fail(fmt.Sprintf("C02: Writev(%d bytes) = %d without error on %s", len(all), n, ci.cid))
		}
		return fmt.Sprintf("n=%d err=%s", n, errName(err))
	case "writeto":
		w := &util.Writer{Script: util.ParseScript(arg)}
		n, err := c.WriteTo(w)
		consume(ci, "WriteTo", w.Sink)
		if int(n) != len(w.Sink) {
			fail(fmt.Sprintf("C01: WriteTo reported %d, writer accepted %d", n, len(w.Sink)))
		}
		return fmt.Sprintf("n=%d err=%s sink=%s", n, errName(err), util.Hex(w.Sink))
	case "readfrom":
		start := st.freshPos
		r := &util.Reader{Script: util.ParseScript(arg), Pos: &st.freshPos}
		n, err := c.ReadFrom(r)
		if ci != nil {
			for i := 0; i < r.Delivered; i++ {
				ci.accepted = append(ci.accepted, util.Fresh(start+i))
			}
		}
		if int(n) != r.Delivered {
			fail(fmt.Sprintf("C02: ReadFrom reported %d, reader delivered %d", n, r.Delivered))
		}
		return fmt.Sprintf("n=%d err=%s", n, errName(err))
	case "readbulk": // a reader that delivers whatever is asked for until `arg` bytes were delivered, then (0, EOF)
		start := st.freshPos
		r := &bulkReader{left: atoi(arg), pos: &st.freshPos}
		n, err := c.ReadFrom(r)
		if ci != nil {
			for i := 0; i < r.delivered; i++ {
				ci.accepted = append(ci.accepted, util.Fresh(start+i))
			}
		}
		if int(n) != r.delivered {
			fail(fmt.Sprintf("C02: ReadFrom reported %d, reader delivered %d", n, r.delivered))
		}
		return fmt.Sprintf("n=%d err=%s", n, errName(err))
	case "flush":
		return "err=" + errName(c.Flush())
	case "asyncwrite":
		p := util.UnHex(arg)
		err := c.AsyncWrite(p, nil)
		if ci != nil && err == nil {
			ci.pendingAsync(p)
		}
		return "err=" + errName(err)
	case "asyncwritev":
		var bs [][]byte
		var flat []byte
		for _, h := range strings.Split(arg, ",") {
			b := util.UnHex(h)
			bs = append(bs, b)
			flat = append(flat, b...)
		}
		err := c.AsyncWritev(bs, nil)
		if ci != nil && err == nil {
			ci.pendingAsync(flat)
		}
		return "err=" + errName(err)
	case "dup": // the user takes a duplicate of the descriptor and keeps it
		fd, err := c.Dup()
		if err == nil {
			st.keptDups = append(st.keptDups, fd)
		}
		return "n=0 err=" + errName(err)
	case "wake":
		return "err=" + errName(c.Wake(nil))
	case "close":
		return "err=" + errName(c.Close())
	case "elclose":
		return "err=" + errName(c.EventLoop().Close(c))
	case "sendto":
		kv := strings.SplitN(arg, "@", 2)
		a, _ := net.ResolveUDPAddr("udp", kv[1])
		n, err := c.SendTo(util.UnHex(kv[0]), a)
		return fmt.Sprintf("n=%d err=%s", n, errName(err))
	case "addr":
		return fmt.Sprintf("remote=%v", c.RemoteAddr())
	}
	return "bad-hop"
}

type bulkReader struct {
	left      int
	pos       *int
	delivered int
}

func (r *bulkReader) Read(p []byte) (int, error) {
	if r.left == 0 {
		return 0, io.EOF
	}
	m := len(p)
	if m > r.left {
		m = r.left
	}
	for i := 0; i < m; i++ {
		p[i] = util.Fresh(*r.pos + i)
	}
	*r.pos += m
	r.left -= m
	r.delivered += m
	return m, nil
}

// asynchronous writes take effect when their task runs: the driver appends them to `accepted`
// when it sees the task start (enter asyncWrite) - kept in issue order here
var asyncQ = map[string][][]byte{}

func (ci *connInfo) pendingAsync(p []byte) { asyncQ[ci.cid] = append(asyncQ[ci.cid], p) }

func (h *handler) OnOpen(c gnet.Conn) ([]byte, gnet.Action) {
	cid := cidOf(c)
	ci := st.conns[cid]
	st.log = append(st.log, "cb OnOpen c="+cid)
	connOf[cid] = c
	if ci != nil {
		ci.opened++
		if ci.opened > 1 {
			fail("C04: OnOpen twice for " + cid)
		}
	}
	return runProgram("open", c, ci)
}

func (h *handler) OnTraffic(c gnet.Conn) gnet.Action {
	cid := cidOf(c)
	ci := st.conns[cid]
	if st.proto == "udp" {
		ci = nil
		st.log = append(st.log, fmt.Sprintf("cb OnTraffic c=%s readable=%d remote=%s", cid, c.InboundBuffered(), saOf(c.RemoteAddr())))
		oracleUDP(c)
	} else {
		st.log = append(st.log, fmt.Sprintf("cb OnTraffic c=%s readable=%d", cid, c.InboundBuffered()))
	}
	if ci != nil {
		if ci.opened != 1 {
			fail("C04: OnTraffic before OnOpen for " + cid)
		}
		if ci.closedCB > 0 {
			fail("C04: OnTraffic after OnClose for " + cid)
		}
		checkBuffered(c, ci)
	}
	_, a := runProgram("traffic", c, ci)
	return a
}

func (h *handler) OnClose(c gnet.Conn, err error) gnet.Action {
	cid := cidOf(c)
	ci := st.conns[cid]
	e := "nil"
	if err != nil {
		e = "nonnil"
	}
	st.log = append(st.log, fmt.Sprintf("cb OnClose c=%s err=%s", cid, e))
	if ci != nil {
		ci.closedCB++
		ci.closeErr = e
		if ci.closedCB > 1 {
			fail("C04: OnClose twice for " + cid)
		}
		if ci.opened != 1 {
			fail("C04: OnClose without OnOpen for " + cid)
		}
		// C01: everything the peer sent before an orderly close has been offered
		if ci.finSent && e == "nonnil" && ci.delivered == len(ci.sent) {
			if len(ci.consumed)+c.InboundBuffered() != len(ci.sent) {
				fail(fmt.Sprintf("C01: at OnClose of %s %d bytes were consumed or readable, the peer sent %d before its orderly close", cid, len(ci.consumed)+c.InboundBuffered(), len(ci.sent)))
			}
		}
	}
	_, a := runProgram("close", c, ci)
	return a
}

// saOf renders a net.Addr the way the system-call shim renders socket addresses
func saOf(a net.Addr) string {
	if u, ok := a.(*net.UDPAddr); ok {
		if ip4 := u.IP.To4(); ip4 != nil {
			return fmt.Sprintf("inet4:%s:%d", util.Hex(ip4), u.Port)
		}
		return fmt.Sprintf("inet6:%s:%d:0", util.Hex(u.IP.To16()), u.Port)
	}
	return "nil"
}

// ---------------------------------------------------------------- UDP oracle (C08)

type dgram struct {
	payload []byte
	from    string
}

var udpSent []dgram
var udpSeen int

// replies: every successful Write inside the callback of a UDP listener must arrive at the sender as exactly one datagram
var udpExpect [][]byte
var udpGot int

func udpDrain(st *state) string {
	var got []string
	for {
		buf := make([]byte, 70000)
		_ = st.udp.udpPeer.SetReadDeadline(time.Now().Add(30 * time.Millisecond))
		n, err := st.udp.udpPeer.Read(buf)
		if err != nil {
			break
		}
		got = append(got, util.Hex(buf[:n]))
		if udpGot >= len(udpExpect) {
			fail(fmt.Sprintf("C08: the sender received a datagram of %d bytes that no Write of the handler sent", n))
		} else if !bytes.Equal(udpExpect[udpGot], buf[:n]) {
			fail(fmt.Sprintf("C08: reply %d arrived as %s, the handler wrote %s", udpGot, util.Hex(buf[:n]), util.Hex(udpExpect[udpGot])))
		}
		udpGot++
	}
	return fmt.Sprintf("ok @@ n=%d data=%s", len(got), strings.Join(got, ","))
}

func oracleUDP(c gnet.Conn) {
	if udpSeen >= len(udpSent) {
		fail("C08: OnTraffic without a datagram")
		return
	}
	d := udpSent[udpSeen]
	udpSeen++
	b, _ := c.Peek(-1)
	want := d.payload
	if _, _, rbc, _ := st.loop.Options(); len(want) > rbc { // beyond the read-buffer size the property makes no claim: the kernel truncates
		want = want[:rbc]
	}
	if !bytes.Equal(b, want) {
		fail(fmt.Sprintf("C08: datagram %d: readable bytes %s, payload %s", udpSeen, util.Hex(b)[:200], util.Hex(want)[:200]))
	}
	if c.RemoteAddr() == nil || c.RemoteAddr().String() != d.from {
		fail(fmt.Sprintf("C08: datagram %d: RemoteAddr %v, sender %s", udpSeen, c.RemoteAddr(), d.from))
	}
}

// ---------------------------------------------------------------- ops

func waitEvent() vs.Event {
	select {
	case ev := <-vs.Events:
		return ev
	case <-runaway:
		tail := ""
		if n := len(st.log); n > 0 {
			tail = st.log[n-1]
			if len(tail) > 60 {
				tail = tail[:60]
			}
		}
		fail(fmt.Sprintf("the event loop never came back to epoll_wait: more than %d system calls / callbacks inside one round, the last one: %s", roundBudget, tail))
		util.Die("stuck count=0 | - @@=")
		return vs.Event{Kind: "stuck"}
	case <-time.After(20 * time.Second):
		fail("the event loop did not come back to epoll_wait within 20 s (stuck inside a round)")
		util.Die("stuck count=0 | - @@=")
		return vs.Event{Kind: "stuck"}
	}
}

func teardown() {
	if st == nil {
		return
	}
	vs.Activate(false)
	vsys.Set(nil, nil)
	if !st.exited {
		_ = st.loop.Shutdown()
		select {
		case st.grant <- struct{}{}:
		default:
		}
		deadline := time.After(5 * time.Second)
	wait:
		for {
			select {
			case ev := <-vs.Events:
				if ev.Kind == "done" {
					break wait
				}
			case <-deadline:
				break wait
			}
		}
	}
	st.loop.CloseAll()
	for _, fd := range st.keptDups { // a life that did not reach its end
		_ = unix.Close(fd)
	}
	st.keptDups = nil
	for _, ci := range st.conns {
		if ci.peer != nil {
			_ = ci.peer.Close()
		}
	}
	for _, p := range st.pending {
		_ = p.Close()
	}
	if st.udp != nil && st.udp.udpPeer != nil {
		_ = st.udp.udpPeer.Close()
	}
	if st.sockDir != "" {
		_ = os.RemoveAll(st.sockDir)
	}
	for {
		select {
		case <-vs.Events:
			continue
		default:
		}
		break
	}
	st = nil
}

func drain() string {
	if len(st.log) == 0 {
		return "-"
	}
	s := strings.Join(st.log, " | ")
	st.log = nil
	return s
}

func newLoop(ws []string) string {
	teardown()
	// newloop <lt|et> <chunk> <rbc> <wbc> <unix|tcp|udp>
	st = &state{names: map[int]string{}, byPtr: map[string]string{}, conns: map[string]*connInfo{}, progs: map[string]string{}, directive: map[string][]vsys.Directive{}, proto: ws[5]}
	asyncQ = map[string][][]byte{}
	udpSent, udpSeen = nil, 0
	udpExpect, udpGot = nil, 0
	chunk, _ := strconv.Atoi(ws[2])
	rbc, _ := strconv.Atoi(ws[3])
	wbc, _ := strconv.Atoi(ws[4])
	st.et = ws[1] == "et"
	opts := []gnet.Option{gnet.WithReadBufferCap(rbc), gnet.WithWriteBufferCap(wbc), gnet.WithReusePort(true)}
	if st.et {
		opts = append(opts, gnet.WithEdgeTriggeredIO(true))
		if chunk > 0 {
			opts = append(opts, gnet.WithEdgeTriggeredIOChunk(chunk))
		}
	}
	switch st.proto {
	case "unix":
		dir, err := os.MkdirTemp("", "gnetverif")
		if err != nil {
			return "bad-tmp"
		}
		st.sockDir = dir
		st.addr = "unix://" + dir + "/s.sock"
	case "tcp":
		st.addr = "tcp://127.0.0.1:0"
	case "udp":
		st.addr = "udp://127.0.0.1:0"
	}
	opts = append(opts, gnet.WithLogger(quiet{})) // the framework's error log would go to stdout, into the reply stream
	loop, err := gnet.NewVerifLoop(&handler{}, []string{st.addr}, opts...)
	if err != nil {
		return "bad-loop:" + err.Error()
	}
	st.loop = loop
	for i, fd := range loop.ListenerFds() {
		st.names[fd] = fmt.Sprintf("L%d", i)
	}
	st.log = nil
	vsys.Set(record, func(call string, fd int) vsys.Directive {
		key := call + "@" + nameOf(fd)
		for _, k := range []string{key, call + "@*"} {
			if q := st.directive[k]; len(q) > 0 {
				st.directive[k] = q[1:]
				if d := q[0]; d.Kind == "errno" && d.Errno != unix.EAGAIN && d.Errno != unix.EINTR {
					// a failure that strikes while the connection is already being closed (a write inside OnClose) cannot
					// change the error OnClose was given: only failures before OnClose count for the C18 oracle
					if ci := st.conns[nameOf(fd)]; ci != nil && !strings.HasPrefix(call, "epoll_ctl_Delete") && call != "close" && ci.closedCB == 0 {
						ci.fatal = call + ":" + unix.ErrnoName(d.Errno)
					}
					if ci := st.conns[nameOf(fd)]; ci != nil {
						ci.ioFailed = true
					}
				}
				return q[0]
			}
		}
		return vsys.Directive{}
	})
	vs.Activate(true)
	ready := make(chan struct{})
	go func(s *state) {
		runtime.LockOSThread()
		s.grant = vs.Register(0)
		close(ready)
		err := s.loop.Run()
		s.exited = true
		e := "nil"
		if err != nil {
			e = "nonnil"
		}
		s.log = append(s.log, "exit err="+e)
		vs.Done("exit")
		vs.Unregister()
	}(st)
	<-ready
	if ev := waitEvent(); ev.Kind != "parked" {
		return "bad-start:" + ev.Kind
	}
	et, ch, r, w := loop.Options()
	return fmt.Sprintf("ok et=%s chunk=%d rbc=%d wbc=%d", util.B(et), ch, r, w)
}

func settle() {
	if st.proto == "tcp" || st.proto == "udp" {
		time.Sleep(2 * time.Millisecond)
	}
}

func step(ws []string) string {
	atoi := func(s string) int { n, _ := strconv.Atoi(s); return n }
	switch ws[0] {
	case "newloop":
		return newLoop(ws)
	case "prog": // prog <kind[@cid]> <program>
		st.progs[ws[1]] = strings.Join(ws[2:], " ")
		return "ok"
	case "inject": // inject <call> <cid|*> <short N | errno NAME>
		key := ws[1] + "@" + ws[2]
		d := vsys.Directive{Kind: ws[3]}
		if ws[3] == "short" {
			d.N = atoi(ws[4])
		} else {
			d.Errno = errnoOf(ws[4])
			if ci := st.conns[ws[2]]; ci != nil {
				ci.faulted = true
			}
			if ws[2] == "*" {
				for _, ci := range st.conns {
					ci.faulted = true
				}
			}
		}
		st.directive[key] = append(st.directive[key], d)
		return "ok"
	case "connect":
		var p net.Conn
		var err error
		if st.proto == "unix" {
			p, err = net.Dial("unix", strings.TrimPrefix(st.addr, "unix://"))
		} else {
			p, err = net.Dial("tcp", st.loop.ListenerAddr(0))
		}
		if err != nil {
			return "bad-connect:" + err.Error()
		}
		st.pending = append(st.pending, p)
		settle()
		return "ok"
	case "send": // send <cid> <hex>
		ci := st.conns[ws[1]]
		if ci == nil || ci.peer == nil {
			return "ok"
		}
		data := util.UnHex(ws[2])
		_ = ci.peer.SetWriteDeadline(time.Now().Add(2 * time.Second))
		n, _ := ci.peer.Write(data)
		ci.sent = append(ci.sent, data[:n]...)
		settle()
		return fmt.Sprintf("ok @@ n=%d", n)
	case "shutwr":
		ci := st.conns[ws[1]]
		if ci == nil || ci.peer == nil {
			return "ok"
		}
		switch p := ci.peer.(type) {
		case *net.UnixConn:
			_ = p.CloseWrite()
		case *net.TCPConn:
			_ = p.CloseWrite()
		}
		ci.finSent = true
		settle()
		return "ok"
	case "peerclose":
		ci := st.conns[ws[1]]
		if ci == nil || ci.peer == nil {
			return "ok"
		}
		_ = ci.peer.Close()
		ci.finSent = true
		settle()
		return "ok"
	case "sndbuf": // sndbuf <cid> <bytes>: a small kernel send buffer on the framework's side of the connection, so
		// that real back-pressure (EAGAIN from write/writev) is within reach of small payloads. Not visible to the model.
		if ci := st.conns[ws[1]]; ci != nil && !ci.fdClosed && ci.closedCB == 0 {
			_ = unix.SetsockoptInt(ci.fd, unix.SOL_SOCKET, unix.SO_SNDBUF, atoi(ws[2]))
		}
		return "ok"
	case "peerread": // peerread <cid> <max>
		ci := st.conns[ws[1]]
		if ci == nil || ci.peer == nil {
			return "ok"
		}
		buf := make([]byte, atoi(ws[2]))
		_ = ci.peer.SetReadDeadline(time.Now().Add(30 * time.Millisecond))
		n, _ := ci.peer.Read(buf)
		ci.peerGot = append(ci.peerGot, buf[:n]...)
		// C02: the peer receives exactly what the kernel accepted, in order
		if len(ci.peerGot) > len(ci.toKernel) || !bytes.Equal(ci.toKernel[:len(ci.peerGot)], ci.peerGot) {
			fail(fmt.Sprintf("C02: peer of %s received bytes that were not handed to the kernel in that order", ci.cid))
		}
		return fmt.Sprintf("ok @@ n=%d", n)
	case "udpsend": // udpsend <hex>
		if st.udp == nil {
			a, _ := net.ResolveUDPAddr("udp", st.loop.ListenerAddr(0))
			p, err := net.DialUDP("udp", nil, a)
			if err != nil {
				return "bad-udp"
			}
			st.udp = &connInfo{udpPeer: p}
		}
		data := util.UnHex(ws[1])
		_, _ = st.udp.udpPeer.Write(data)
		udpSent = append(udpSent, dgram{data, st.udp.udpPeer.LocalAddr().String()})
		settle()
		return "ok"
	case "udprecv":
		if st.udp == nil {
			return "ok"
		}
		return udpDrain(st)
	case "async": // async <cid> write <hex> | wake | close   (from another goroutine; the loop is parked)
		ci := st.conns[ws[1]]
		if ci == nil {
			return "ok"
		}
		c := connOf[ws[1]]
		if c == nil {
			return "ok"
		}
		var err error
		switch ws[2] {
		case "write":
			p := util.UnHex(ws[3])
			if err = c.AsyncWrite(p, nil); err == nil {
				ci.pendingAsync(p)
			}
		case "writev":
			var bs [][]byte
			var flat []byte
			for _, h := range strings.Split(ws[3], ",") {
				b := util.UnHex(h)
				bs = append(bs, b)
				flat = append(flat, b...)
			}
			if err = c.AsyncWritev(bs, nil); err == nil {
				ci.pendingAsync(flat)
			}
		case "wake":
			err = c.Wake(nil)
		case "close":
			err = c.Close()
		}
		return "ok @@ err=" + errName(err)
	case "threshold": // threshold <n>: the poller's high-priority threshold (1024 in production), so that its overflow path is reachable
		st.loop.SetThreshold(int32(atoi(ws[1])))
		return "ok"
	case "stop":
		// C01: a peer that keeps sending is never left with data that is not handed to OnTraffic - when the loop is
		// idle in epoll_wait (the generator polls three times before it stops) everything sent on an open connection
		// has been read and offered to the handler
		if st.blocked && !st.exited {
			for _, cid := range st.order {
				ci := st.conns[cid]
				if ci.opened == 1 && ci.closedCB == 0 && !ci.fdClosed && ci.fatal == "" && ci.delivered < len(ci.sent) {
					fail(fmt.Sprintf("C01: the loop is idle in epoll_wait while %d of the %d bytes the peer sent on %s were never read and offered to the handler", len(ci.sent)-ci.delivered, len(ci.sent), cid))
				}
			}
		}
		// C18: retryable accept(2) errors have no visible effect: every peer that connected has been accepted by now
		if st.blocked && !st.exited && len(st.pending) > 0 {
			fail(fmt.Sprintf("C18: the loop is idle while %d connected peers were never accepted", len(st.pending)))
		}
		// C18: a connection that met a non-retryable I/O failure must be closed by now, with one OnClose(err != nil)
		for _, cid := range st.order {
			ci := st.conns[cid]
			if ci.fatal != "" && ci.opened == 1 && (ci.closedCB != 1 || ci.closeErr != "nonnil" || !ci.fdClosed) {
				fail(fmt.Sprintf("C18: %s met %s but is not closed with a non-nil OnClose error (OnClose calls %d, err %s, descriptor closed %v)", cid, ci.fatal, ci.closedCB, ci.closeErr, ci.fdClosed))
			}
		}
		if st.udp != nil {
			udpDrain(st)
			if udpGot < len(udpExpect) {
				fail(fmt.Sprintf("C08: the handler's Write calls sent %d datagrams back, the sender received %d", len(udpExpect), udpGot))
			}
		}
		return "ok @@ err=" + errName(st.loop.Shutdown())
	case "drain": // drain <cid>: the peer reads everything while the loop keeps running, until nothing moves
		ci := st.conns[ws[1]]
		if ci == nil || ci.peer == nil {
			return "- @@="
		}
		var rounds []string
		idle := 0
		for i := 0; i < 400 && idle < 3 && !st.exited; i++ {
			buf := make([]byte, 1<<20)
			_ = ci.peer.SetReadDeadline(time.Now().Add(5 * time.Millisecond))
			n, _ := ci.peer.Read(buf)
			ci.peerGot = append(ci.peerGot, buf[:n]...)
			r := step([]string{"poll"})
			r = strings.TrimSuffix(r, " @@=")
			rounds = append(rounds, r)
			if n == 0 && strings.HasPrefix(r, "idle") {
				idle++
			} else {
				idle = 0
			}
		}
		if len(ci.peerGot) > len(ci.toKernel) || !bytes.Equal(ci.toKernel[:len(ci.peerGot)], ci.peerGot) {
			fail(fmt.Sprintf("C02: peer of %s received bytes that were not handed to the kernel in that order", ci.cid))
		}
		// C02: accepted data never remains unsent forever while the peer is willing to read
		if ci.closedCB == 0 && !ci.fdClosed && !st.exited && len(ci.peerGot) != len(ci.accepted) {
			fail(fmt.Sprintf("C02: %s stays open, its peer read everything it could get, yet only %d of %d accepted bytes arrived (OutboundBuffered=%d)", ci.cid, len(ci.peerGot), len(ci.accepted), len(ci.accepted)-len(ci.toKernel)))
		}
		return strings.Join(rounds, " || ") + " @@="
	case "poll":
		if st.exited {
			return "exited @@="
		}
		st.grant <- struct{}{}
		ev := waitEvent()
		st.blocked = ev.Kind == "blocked"
		head := "round"
		switch ev.Kind {
		case "blocked":
			head = "idle"
		case "done":
			head = "exit"
			endOfLife()
		case "stuck":
			head = "stuck"
		}
		out := head + " count=" + strconv.Itoa(st.loop.Count()) + " | " + drain()
		return out + " @@="
	}
	return "bad-op"
}

// quiet swallows the framework's log output
type quiet struct{}

func (quiet) Debugf(string, ...any) {}
func (quiet) Infof(string, ...any)  {}
func (quiet) Warnf(string, ...any)  {}
func (quiet) Errorf(string, ...any) {}
func (quiet) Fatalf(string, ...any) {}

// connOf remembers the gnet.Conn of every opened connection (set in OnOpen)
var connOf = map[string]gnet.Conn{}

func errnoOf(s string) unix.Errno {
	m := map[string]unix.Errno{"ECONNRESET": unix.ECONNRESET, "EPIPE": unix.EPIPE, "ETIMEDOUT": unix.ETIMEDOUT, "EBADF": unix.EBADF,
		"ENOMEM": unix.ENOMEM, "EINVAL": unix.EINVAL, "EINTR": unix.EINTR, "EAGAIN": unix.EAGAIN, "EMFILE": unix.EMFILE,
		"ECONNABORTED": unix.ECONNABORTED, "EIO": unix.EIO}
	return m[s]
}

// endOfLife: after the loop has exited every opened connection must have got its OnClose and
// every accepted descriptor must have been closed (C04, C06, C07)
func endOfLife() {
	for _, cid := range st.order {
		ci := st.conns[cid]
		if ci.opened == 1 && ci.closedCB != 1 {
			fail(fmt.Sprintf("C04: %s was opened and the loop exited without OnClose", cid))
		}
		if !ci.fdClosed {
			fail(fmt.Sprintf("C07: descriptor of %s was never closed by the framework", cid))
		}
	}
	// C07: descriptors handed to the user are never closed by the framework
	for _, fd := range st.keptDups {
		if _, err := unix.FcntlInt(uintptr(fd), unix.F_GETFD, 0); err != nil {
			fail(fmt.Sprintf("C07: a descriptor handed to the user by Conn.Dup (%d) was closed by the framework", fd))
		} else {
			_ = unix.Close(fd)
		}
	}
	st.keptDups = nil
}

func main() {
	mode := flag.String("mode", "exec", "gen|exec")
	seed := flag.Int64("seed", 1, "PRNG seed")
	cases := flag.Int("cases", 100, "number of cases")
	kind := flag.String("kind", "stream", "stream|udp|fault")
	flag.Parse()
	switch *mode {
	case "gen":
		generate(*seed, *cases, *kind)
	case "exec":
		util.Exec(func(string) { connOf = map[string]gnet.Conn{} }, step)
		teardown()
		if util.Fails > 0 {
			os.Exit(3)
		}
	}
}
