#!/bin/sh
# Builds the framework from files on disk only (offline).
set -e
cd "$(dirname "$0")"
export GOFLAGS=-mod=mod GOPROXY=off GOSUMDB=off GOTOOLCHAIN=local
mkdir -p .bin
(cd tools && go build -o ../.bin/facts ./cmd/facts && go build -o ../.bin/gotolean ./cmd/gotolean && go build -o ../.bin/instr ./cmd/instr && go build -o ../.bin/access ./cmd/access)
.bin/facts /repo lean/Gnet/Gen/Facts.lean
.bin/gotolean /repo lean/Gnet/Gen/Arith.lean
.bin/access /repo lean/Gnet/Gen/Access.lean
(cd lean && lake build)
cp /repo/go.sum harness/go.sum
# the drivers need build-time overlays and are built by the checks themselves
(cd harness && go vet ./util >/dev/null 2>&1 || true)
echo setup done
