// access: field-access table of package gnet for the C05 ownership argument.
// For the documented concurrency-safe API (roots) it computes, transitively over static calls
// but WITHOUT entering function literals handed to Poller.Trigger (they run on the loop), every
// struct field read, written or accessed through sync/atomic. For all other functions it
// lists the fields they write. Output: Gnet/Gen/Access.lean.
// usage: access <repo dir> <out file>
package main

import (
	"fmt"
	"go/ast"
	"go/token"
	"go/types"
	"os"
	"sort"
	"strings"

	"golang.org/x/tools/go/packages"
)

const mod = "github.com/panjf2000/gnet/v2"

// the documented concurrency-safe API
var roots = []string{
	"(*conn).AsyncWrite", "(*conn).AsyncWritev", "(*conn).Wake", "(*conn).Close", "(*conn).CloseWithCallback",
	"(*conn).SafeContext", "(*conn).SetSafeContext", "(*conn).Fd", "(*conn).Dup",
	"(*conn).SetReadBuffer", "(*conn).SetWriteBuffer", "(*conn).SetLinger", "(*conn).SetNoDelay",
	"(*conn).SetKeepAlivePeriod", "(*conn).SetKeepAlive",
	"(*eventloop).Execute", "(*eventloop).Register", "(*eventloop).Enroll",
	"Engine.CountConnections", "Engine.Validate", "Engine.Stop", "Engine.Register", "Engine.Dup", "Engine.DupListener",
	"Stop",
}

type access struct{ field, kind string }

type fn struct {
	name    string
	acc     map[access]bool
	callees map[string]bool
}

func main() {
	repo, out := os.Args[1], os.Args[2]
	cfg := &packages.Config{
		Mode: packages.NeedName | packages.NeedTypes | packages.NeedSyntax | packages.NeedTypesInfo | packages.NeedFiles,
		Dir:  repo, Env: append(os.Environ(), "GOOS=linux"),
	}
	pkgs, err := packages.Load(cfg, ".")
	if err != nil || len(pkgs) != 1 || len(pkgs[0].Errors) > 0 {
		fmt.Fprintln(os.Stderr, "access: cannot load package gnet:", err, pkgs[0].Errors)
		os.Exit(2)
	}
	p := pkgs[0]
	info := p.TypesInfo
	fns := map[string]*fn{}
	nameOf := func(f *types.Func) string {
		sig := f.Type().(*types.Signature)
		if r := sig.Recv(); r != nil {
			t := r.Type()
			if pt, ok := t.(*types.Pointer); ok {
				return "(*" + pt.Elem().(*types.Named).Obj().Name() + ")." + f.Name()
			}
			if nt, ok := t.(*types.Named); ok {
				return nt.Obj().Name() + "." + f.Name()
			}
		}
		return f.Name()
	}
	for i, file := range p.Syntax {
		if strings.HasSuffix(p.GoFiles[i], "_test.go") {
			continue
		}
		for _, d := range file.Decls {
			fd, ok := d.(*ast.FuncDecl)
			if !ok || fd.Body == nil {
				continue
			}
			obj, _ := info.Defs[fd.Name].(*types.Func)
			if obj == nil {
				continue
			}
			f := &fn{name: nameOf(obj), acc: map[access]bool{}, callees: map[string]bool{}}
			fns[f.name] = f
			// which selector expressions are written / used atomically
			written := map[ast.Expr]bool{}
			atomicUse := map[ast.Expr]bool{}
			skipLit := map[*ast.FuncLit]bool{}
			ast.Inspect(fd.Body, func(n ast.Node) bool {
				switch x := n.(type) {
				case *ast.AssignStmt:
					for _, l := range x.Lhs {
						written[unparen(l)] = true
					}
				case *ast.IncDecStmt:
					written[unparen(x.X)] = true
				case *ast.CallExpr:
					if sel, ok := x.Fun.(*ast.SelectorExpr); ok {
						if callee, ok := info.Uses[sel.Sel].(*types.Func); ok {
							if callee.Pkg() != nil && callee.Pkg().Path() == "sync/atomic" {
								for _, a := range x.Args {
									if u, ok := a.(*ast.UnaryExpr); ok && u.Op == token.AND {
										atomicUse[unparen(u.X)] = true
									}
								}
							}
							if callee.Name() == "Trigger" { // closures handed to the poller run on the loop
								for _, a := range x.Args {
									if lit, ok := a.(*ast.FuncLit); ok {
										skipLit[lit] = true
									}
								}
							}
						}
					}
				}
				return true
			})
			var walk func(n ast.Node) bool
			walk = func(n ast.Node) bool {
				switch x := n.(type) {
				case *ast.FuncLit:
					if skipLit[x] {
						return false
					}
				case *ast.SelectorExpr:
					if sel, ok := info.Selections[x]; ok && sel.Kind() == types.FieldVal {
						recv := sel.Recv()
						if pt, ok := recv.(*types.Pointer); ok {
							recv = pt.Elem()
						}
						if nt, ok := recv.(*types.Named); ok && nt.Obj().Pkg() != nil && nt.Obj().Pkg().Path() == mod {
							// resolve embedded fields to the struct that declares them
							owner := nt.Obj().Name()
							if fv, ok := sel.Obj().(*types.Var); ok && len(sel.Index()) > 1 {
								owner = declaringStruct(nt, sel.Index())
								_ = fv
							}
							field := owner + "." + sel.Obj().Name()
							kind := "read"
							if atomicUse[x] {
								kind = "atomic"
							} else if written[x] {
								kind = "write"
							}
							// methods of atomic types (atomic.Bool, atomic.Pointer) are atomic accesses
							if isAtomicType(sel.Obj().Type()) {
								kind = "atomic"
							}
							f.acc[access{field, kind}] = true
						}
					}
				case *ast.CallExpr:
					var id *ast.Ident
					switch fun := x.Fun.(type) {
					case *ast.Ident:
						id = fun
					case *ast.SelectorExpr:
						id = fun.Sel
					}
					if id != nil {
						if callee, ok := info.Uses[id].(*types.Func); ok && callee.Pkg() != nil && callee.Pkg().Path() == mod {
							f.callees[nameOf(callee)] = true
						}
					}
				}
				return true
			}
			ast.Inspect(fd.Body, walk)
		}
	}
	// interface method calls: loadBalancer.iterate/next/len/index/register resolve to all implementations
	impl := map[string][]string{}
	for name := range fns {
		if i := strings.LastIndex(name, "."); i >= 0 {
			impl[name[i+1:]] = append(impl[name[i+1:]], name)
		}
	}
	resolve := func(c string) []string {
		if _, ok := fns[c]; ok {
			return []string{c}
		}
		if i := strings.LastIndex(c, "."); i >= 0 && strings.HasPrefix(c, "loadBalancer") {
			var out []string
			for _, n := range impl[c[i+1:]] {
				if strings.Contains(n, "LoadBalancer") {
					out = append(out, n)
				}
			}
			return out
		}
		return nil
	}
	type row struct{ root, field, kind string }
	var offLoop []row
	reach := map[string]bool{}
	for _, r := range roots {
		if _, ok := fns[r]; !ok {
			fmt.Fprintf(os.Stderr, "access: API root %s not found (tie broken)\n", r)
			os.Exit(2)
		}
		seen := map[string]bool{}
		var visit func(n string)
		visit = func(n string) {
			if seen[n] {
				return
			}
			seen[n] = true
			reach[n] = true
			f := fns[n]
			if f == nil {
				return
			}
			for a := range f.acc {
				offLoop = append(offLoop, row{r, a.field, a.kind})
			}
			for c := range f.callees {
				for _, t := range resolve(c) {
					visit(t)
				}
			}
		}
		visit(r)
	}
	sort.Slice(offLoop, func(i, j int) bool {
		a, b := offLoop[i], offLoop[j]
		return a.root+a.field+a.kind < b.root+b.field+b.kind
	})
	// dedupe
	var ol []row
	for i, r := range offLoop {
		if i == 0 || r != offLoop[i-1] {
			ol = append(ol, r)
		}
	}
	// writes by every function (who may write a field at all)
	type wr struct{ fn, field string }
	var writes []wr
	for name, f := range fns {
		for a := range f.acc {
			if a.kind == "write" {
				writes = append(writes, wr{name, a.field})
			}
		}
	}
	sort.Slice(writes, func(i, j int) bool { return writes[i].fn+writes[i].field < writes[j].fn+writes[j].field })
	var b strings.Builder
	b.WriteString("-- GENERATED by tools/cmd/access from the current gnet source; do not edit.\nnamespace Gnet.Access\n\n")
	b.WriteString("/-- (API root, Struct.field, read|write|atomic): fields the concurrency-safe API touches off the loop -/\n")
	b.WriteString("def offLoop : List (String × String × String) := [\n")
	for i, r := range ol {
		sep := ","
		if i == len(ol)-1 {
			sep = ""
		}
		fmt.Fprintf(&b, "  (%q, %q, %q)%s\n", r.root, r.field, r.kind, sep)
	}
	b.WriteString("]\n\n/-- (function, Struct.field): every non-atomic write of a field anywhere in package gnet -/\n")
	b.WriteString("def writes : List (String × String) := [\n")
	for i, w := range writes {
		sep := ","
		if i == len(writes)-1 {
			sep = ""
		}
		fmt.Fprintf(&b, "  (%q, %q)%s\n", w.fn, w.field, sep)
	}
	b.WriteString("]\n\nend Gnet.Access\n")
	if err := os.WriteFile(out, []byte(b.String()), 0o644); err != nil {
		panic(err)
	}
}

func unparen(e ast.Expr) ast.Expr {
	for {
		p, ok := e.(*ast.ParenExpr)
		if !ok {
			return e
		}
		e = p.X
	}
}

func declaringStruct(nt *types.Named, index []int) string {
	t := types.Type(nt)
	name := nt.Obj().Name()
	for _, i := range index[:len(index)-1] {
		if pt, ok := t.(*types.Pointer); ok {
			t = pt.Elem()
		}
		st, ok := t.Underlying().(*types.Struct)
		if !ok {
			return name
		}
		f := st.Field(i)
		t = f.Type()
		if pt, ok := t.(*types.Pointer); ok {
			t = pt.Elem()
		}
		if n, ok := t.(*types.Named); ok {
			name = n.Obj().Name()
		} else {
			name = name + "." + f.Name()
		}
	}
	return name
}

func isAtomicType(t types.Type) bool {
	if pt, ok := t.(*types.Pointer); ok {
		t = pt.Elem()
	}
	if nt, ok := t.(*types.Named); ok && nt.Obj().Pkg() != nil && nt.Obj().Pkg().Path() == "sync/atomic" {
		return true
	}
	return false
}
