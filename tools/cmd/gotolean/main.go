// gotolean: translates loop-free integer Go functions of the current gnet source into Lean 4
// definitions over BitVec 64 / BitVec 32 (Gnet/Gen/Arith.lean).
//
// Supported: if/else (with init), return, =, :=, op=, ++/--, panic, tag-less switch whose cases
// assign one variable, the operators + - * / % & | ^ << >> == != < <= > >= && || !,
// conversions between int, uint, uint32, uint64, byte; bits.Len / bits.Len32; calls to other
// translated functions. Constant expressions are folded by go/types. A basic-typed leaf that
// is not translatable (struct field, call without arguments, package variable) becomes an
// extra parameter. A result of `none` stands for a Go panic.
// Anything else makes the translator fail: the tie is then reported broken.
//
// usage: gotolean <repo dir> <out file>
package main

import (
	"fmt"
	"go/ast"
	"go/constant"
	"go/token"
	"go/types"
	"math/big"
	"os"
	"sort"
	"strings"

	"golang.org/x/tools/go/packages"
)

const mod = "github.com/panjf2000/gnet/v2"

type spec struct {
	pkg, fn, lean string
	switchVar     string // non-empty: translate the tag-less switch over this variable inside fn
}

var specs = []spec{
	{"/pkg/math", "IsPowerOfTwo", "IsPowerOfTwo", ""},
	{"/pkg/math", "CeilToPowerOfTwo", "CeilToPowerOfTwo", ""},
	{"/pkg/math", "FloorToPowerOfTwo", "FloorToPowerOfTwo", ""},
	{"/pkg/math", "ClosestPowerOfTwo", "ClosestPowerOfTwo", ""},
	{"/pkg/pool/byteslice", "index", "bsIndex", ""},
	{"/pkg/pool/ringbuffer", "index", "rbIndex", ""},
	{"", "determineEventLoops", "determineEventLoops", ""},
	{"", "createListeners", "normReadCapServer", "rbc"},
	{"", "createListeners", "normWriteCapServer", "wbc"},
	{"", "NewClient", "normReadCapClient", "rbc"},
	{"", "NewClient", "normWriteCapClient", "wbc"},
}

type tr struct {
	pkg    *packages.Package
	info   *types.Info
	known  map[string]string // translated functions, by types.Func.FullName()
	params []string               // extra parameters discovered (name : type)
	pseen  map[string]bool
}

func fail(pos token.Pos, fset *token.FileSet, f string, a ...any) {
	fmt.Fprintf(os.Stderr, "gotolean: %s: %s\n", fset.Position(pos), fmt.Sprintf(f, a...))
	os.Exit(2)
}

type ty struct {
	w      int
	signed bool
	isBool bool
}

func (t *tr) typeOf(e ast.Expr) ty {
	tv := t.info.Types[e]
	return t.tyOf(tv.Type, e)
}

func (t *tr) tyOf(T types.Type, e ast.Expr) ty {
	b, ok := T.Underlying().(*types.Basic)
	if !ok {
		fail(e.Pos(), t.pkg.Fset, "unsupported type %s", T)
	}
	switch b.Kind() {
	case types.Int, types.Int64, types.UntypedInt:
		return ty{64, true, false}
	case types.Uint, types.Uint64, types.Uintptr:
		return ty{64, false, false}
	case types.Uint32:
		return ty{32, false, false}
	case types.Int32:
		return ty{32, true, false}
	case types.Uint8:
		return ty{8, false, false}
	case types.Uint16:
		return ty{16, false, false}
	case types.Bool, types.UntypedBool:
		return ty{0, false, true}
	}
	fail(e.Pos(), t.pkg.Fset, "unsupported basic type %s", T)
	return ty{}
}

func (y ty) lean() string {
	if y.isBool {
		return "Bool"
	}
	return fmt.Sprintf("BitVec %d", y.w)
}

func lit(v constant.Value, y ty) string {
	if y.isBool {
		if constant.BoolVal(v) {
			return "true"
		}
		return "false"
	}
	bi, ok := constant.Val(constant.ToInt(v)).(*big.Int)
	if !ok {
		i64, _ := constant.Int64Val(constant.ToInt(v))
		bi = big.NewInt(i64)
	}
	m := new(big.Int).Lsh(big.NewInt(1), uint(y.w))
	r := new(big.Int).Mod(bi, m)
	return fmt.Sprintf("%s#%d", r.String(), y.w)
}

func (t *tr) leaf(e ast.Expr) string {
	y := t.typeOf(e)
	name := strings.NewReplacer(".", "_", "(", "", ")", "", "*", "").Replace(types.ExprString(e))
	if !t.pseen[name] {
		t.pseen[name] = true
		t.params = append(t.params, fmt.Sprintf("(%s : %s)", name, y.lean()))
	}
	return name
}

func (t *tr) expr(e ast.Expr, env map[string]bool) string {
	if tv, ok := t.info.Types[e]; ok && tv.Value != nil {
		return lit(tv.Value, t.tyOf(tv.Type, e))
	}
	switch x := e.(type) {
	case *ast.ParenExpr:
		return t.expr(x.X, env)
	case *ast.Ident:
		if env[x.Name] {
			return x.Name
		}
		if _, ok := t.info.Uses[x].(*types.Var); ok {
			return t.leaf(e) // package-level variable
		}
		fail(e.Pos(), t.pkg.Fset, "unknown identifier %s", x.Name)
	case *ast.SelectorExpr:
		return t.leaf(e)
	case *ast.UnaryExpr:
		a := t.expr(x.X, env)
		switch x.Op {
		case token.NOT:
			return "(!" + a + ")"
		case token.SUB:
			return "(-" + a + ")"
		case token.XOR:
			return "(~~~" + a + ")"
		}
	case *ast.BinaryExpr:
		a, b := t.expr(x.X, env), t.expr(x.Y, env)
		ya := t.typeOf(x.X)
		switch x.Op {
		case token.LAND:
			return "(" + a + " && " + b + ")"
		case token.LOR:
			return "(" + a + " || " + b + ")"
		case token.EQL:
			return "(" + a + " == " + b + ")"
		case token.NEQ:
			return "(" + a + " != " + b + ")"
		case token.LSS, token.LEQ, token.GTR, token.GEQ:
			op := map[token.Token]string{token.LSS: "lt", token.LEQ: "le", token.GTR: "lt", token.GEQ: "le"}[x.Op]
			if x.Op == token.GTR || x.Op == token.GEQ {
				a, b = b, a
			}
			pre := "u"
			if ya.signed {
				pre = "s"
			}
			return fmt.Sprintf("(BitVec.%s%s %s %s)", pre, op, a, b)
		case token.ADD:
			return "(" + a + " + " + b + ")"
		case token.SUB:
			return "(" + a + " - " + b + ")"
		case token.MUL:
			return "(" + a + " * " + b + ")"
		case token.AND:
			return "(" + a + " &&& " + b + ")"
		case token.OR:
			return "(" + a + " ||| " + b + ")"
		case token.XOR:
			return "(" + a + " ^^^ " + b + ")"
		case token.QUO:
			// Go panics on division by zero; only constant non-zero divisors are accepted
			if tv := t.info.Types[x.Y]; tv.Value == nil || constant.Sign(tv.Value) == 0 {
				fail(e.Pos(), t.pkg.Fset, "division by a non-constant or zero")
			}
			if ya.signed {
				return "(BitVec.sdiv " + a + " " + b + ")"
			}
			return "(" + a + " / " + b + ")"
		case token.REM:
			if tv := t.info.Types[x.Y]; tv.Value == nil || constant.Sign(tv.Value) == 0 {
				fail(e.Pos(), t.pkg.Fset, "remainder by a non-constant or zero")
			}
			if ya.signed {
				return "(BitVec.srem " + a + " " + b + ")"
			}
			return "(" + a + " % " + b + ")"
		case token.SHL:
			return "(" + a + " <<< (" + b + ").toNat)"
		case token.SHR:
			if ya.signed {
				return "(BitVec.sshiftRight " + a + " (" + b + ").toNat)"
			}
			return "(" + a + " >>> (" + b + ").toNat)"
		}
	case *ast.CallExpr:
		// conversion?
		if tv, ok := t.info.Types[x.Fun]; ok && tv.IsType() {
			to := t.tyOf(tv.Type, e)
			from := t.typeOf(x.Args[0])
			a := t.expr(x.Args[0], env)
			if to.w == from.w {
				return a
			}
			if to.w < from.w {
				return fmt.Sprintf("(BitVec.setWidth %d %s)", to.w, a)
			}
			if from.signed {
				return fmt.Sprintf("(BitVec.signExtend %d %s)", to.w, a)
			}
			return fmt.Sprintf("(BitVec.setWidth %d %s)", to.w, a)
		}
		if sel, ok := x.Fun.(*ast.SelectorExpr); ok {
			if fn, ok := t.info.Uses[sel.Sel].(*types.Func); ok && fn.Pkg() != nil && fn.Pkg().Path() == "math/bits" {
				switch fn.Name() {
				case "Len", "Len64":
					return "(Gnet.bitsLen64 " + t.expr(x.Args[0], env) + ")"
				case "Len32":
					return "(Gnet.bitsLen32 " + t.expr(x.Args[0], env) + ")"
				}
			}
			if len(x.Args) == 0 {
				return t.leaf(e)
			}
		}
	}
	fail(e.Pos(), t.pkg.Fset, "unsupported expression %s", types.ExprString(e))
	return ""
}

func cloneEnv(env map[string]bool) map[string]bool {
	n := map[string]bool{}
	for k, v := range env {
		n[k] = v
	}
	return n
}

// callOf returns the translated callee if e is a direct call of a translated function.
func (t *tr) callOf(e ast.Expr) (string, *ast.CallExpr) {
	ce, ok := e.(*ast.CallExpr)
	if !ok {
		return "", nil
	}
	var id *ast.Ident
	switch f := ce.Fun.(type) {
	case *ast.Ident:
		id = f
	case *ast.SelectorExpr:
		id = f.Sel
	}
	if id == nil {
		return "", nil
	}
	if fn, ok := t.info.Uses[id].(*types.Func); ok {
		if n, ok := t.known[fn.FullName()]; ok {
			return n, ce
		}
	}
	return "", nil
}

func (t *tr) bindOrLet(name string, rhs ast.Expr, env map[string]bool, rest func(map[string]bool) string, ind string) string {
	env2 := cloneEnv(env)
	if callee, ce := t.callOf(rhs); callee != "" {
		args := ""
		for _, a := range ce.Args {
			args += " " + t.expr(a, env)
		}
		env2[name] = true
		return fmt.Sprintf("%s(%s%s).bind fun %s =>\n%s", ind, callee, args, name, rest(env2))
	}
	r := t.expr(rhs, env)
	env2[name] = true
	return fmt.Sprintf("%slet %s := %s\n%s", ind, name, r, rest(env2))
}

// stmts translates a statement list followed by the continuation k (nil = falling off the end
// of the function, which is an error for value-returning functions).
func (t *tr) stmts(ss []ast.Stmt, env map[string]bool, k func(map[string]bool, string) string, ind string) string {
	if len(ss) == 0 {
		if k == nil {
			return ind + "none /- fell off the end -/"
		}
		return k(env, ind)
	}
	s, rest := ss[0], ss[1:]
	cont := func(e map[string]bool) string { return t.stmts(rest, e, k, ind) }
	switch x := s.(type) {
	case *ast.ReturnStmt:
		if len(x.Results) != 1 {
			fail(s.Pos(), t.pkg.Fset, "return with %d results", len(x.Results))
		}
		if callee, ce := t.callOf(x.Results[0]); callee != "" {
			args := ""
			for _, a := range ce.Args {
				args += " " + t.expr(a, env)
			}
			return ind + "(" + callee + args + ")"
		}
		return ind + "some " + t.expr(x.Results[0], env)
	case *ast.ExprStmt:
		if ce, ok := x.X.(*ast.CallExpr); ok {
			if id, ok := ce.Fun.(*ast.Ident); ok && id.Name == "panic" {
				return ind + "none"
			}
		}
	case *ast.AssignStmt:
		if len(x.Lhs) == 1 && len(x.Rhs) == 1 {
			id, ok := x.Lhs[0].(*ast.Ident)
			if ok {
				switch x.Tok {
				case token.ASSIGN, token.DEFINE:
					return t.bindOrLet(id.Name, x.Rhs[0], env, cont, ind)
				default:
					ops := map[token.Token]token.Token{token.ADD_ASSIGN: token.ADD, token.SUB_ASSIGN: token.SUB,
						token.OR_ASSIGN: token.OR, token.AND_ASSIGN: token.AND, token.SHR_ASSIGN: token.SHR,
						token.SHL_ASSIGN: token.SHL, token.XOR_ASSIGN: token.XOR, token.MUL_ASSIGN: token.MUL}
					if op, ok := ops[x.Tok]; ok {
						be := &ast.BinaryExpr{X: id, Op: op, Y: x.Rhs[0]}
						t.info.Types[be] = t.info.Types[id]
						if tv, ok := t.info.Types[id]; !ok || tv.Type == nil {
							t.info.Types[be] = types.TypeAndValue{Type: t.info.ObjectOf(id).Type()}
							t.info.Types[id] = types.TypeAndValue{Type: t.info.ObjectOf(id).Type()}
						}
						return t.bindOrLet(id.Name, be, env, cont, ind)
					}
				}
			}
		}
	case *ast.IncDecStmt:
		if id, ok := x.X.(*ast.Ident); ok {
			y := t.tyOf(t.info.ObjectOf(id).Type(), id)
			op := " + "
			if x.Tok == token.DEC {
				op = " - "
			}
			env2 := cloneEnv(env)
			return fmt.Sprintf("%slet %s := (%s%s1#%d)\n%s", ind, id.Name, id.Name, op, y.w, cont(env2))
		}
	case *ast.DeclStmt:
		if gd, ok := x.Decl.(*ast.GenDecl); ok && gd.Tok == token.VAR {
			out := ""
			env2 := cloneEnv(env)
			for _, sp := range gd.Specs {
				vs := sp.(*ast.ValueSpec)
				for i, n := range vs.Names {
					y := t.tyOf(t.info.ObjectOf(n).Type(), n)
					v := fmt.Sprintf("0#%d", y.w)
					if y.isBool {
						v = "false"
					}
					if i < len(vs.Values) {
						v = t.expr(vs.Values[i], env2)
					}
					out += fmt.Sprintf("%slet %s := %s\n", ind, n.Name, v)
					env2[n.Name] = true
				}
			}
			return out + cont(env2)
		}
	case *ast.BlockStmt:
		return t.stmts(append(append([]ast.Stmt{}, x.List...), rest...), env, k, ind)
	case *ast.IfStmt:
		if x.Init != nil {
			inner := *x
			inner.Init = nil
			// variables of the init are scoped to the if; the continuation only sees outer ones
			// with their (possibly updated) values - handled by threading names, not scopes.
			return t.stmts([]ast.Stmt{x.Init, &inner}, env, func(e map[string]bool, i string) string {
				return t.stmts(rest, e, k, i)
			}, ind)
		}
		c := t.expr(x.Cond, env)
		kk := func(e map[string]bool, i string) string { return t.stmts(rest, e, k, i) }
		th := t.stmts(x.Body.List, cloneEnv(env), kk, ind+"  ")
		var el string
		if x.Else != nil {
			el = t.stmts([]ast.Stmt{x.Else}, cloneEnv(env), kk, ind+"  ")
		} else {
			el = kk(cloneEnv(env), ind+"  ")
		}
		return fmt.Sprintf("%sif %s then\n%s\n%selse\n%s", ind, c, th, ind, el)
	}
	fail(s.Pos(), t.pkg.Fset, "unsupported statement")
	return ""
}

func (t *tr) function(fd *ast.FuncDecl, leanName string) string {
	env := map[string]bool{}
	var ps []string
	for _, f := range fd.Type.Params.List {
		for _, n := range f.Names {
			T := t.info.ObjectOf(n).Type()
			if _, ok := T.Underlying().(*types.Basic); ok {
				env[n.Name] = true
				ps = append(ps, fmt.Sprintf("(%s : %s)", n.Name, t.tyOf(T, n).lean()))
			} // non-basic parameters (e.g. *Options) are only used through field leaves
		}
	}
	res := fd.Type.Results.List[0]
	rt := t.tyOf(t.info.Types[res.Type].Type, res.Type)
	t.params, t.pseen = nil, map[string]bool{}
	body := t.stmts(fd.Body.List, env, nil, "  ")
	sort.Strings(t.params)
	return fmt.Sprintf("def %s %s : Option (%s) :=\n%s\n", leanName, strings.Join(append(ps, t.params...), " "), rt.lean(), body)
}

// switchOver translates `switch { case c1: lhs = e1 ... default: lhs = en }` over variable v.
func (t *tr) switchOver(fd *ast.FuncDecl, v, leanName string) string {
	var found *ast.SwitchStmt
	ast.Inspect(fd.Body, func(n ast.Node) bool {
		sw, ok := n.(*ast.SwitchStmt)
		if !ok || sw.Tag != nil || found != nil || len(sw.Body.List) == 0 {
			return true
		}
		cc := sw.Body.List[0].(*ast.CaseClause)
		if len(cc.List) == 1 {
			if be, ok := cc.List[0].(*ast.BinaryExpr); ok {
				if id, ok := be.X.(*ast.Ident); ok && id.Name == v {
					found = sw
				}
			}
		}
		return true
	})
	if found == nil {
		fmt.Fprintf(os.Stderr, "gotolean: switch over %s not found in %s (tie broken)\n", v, fd.Name.Name)
		os.Exit(2)
	}
	t.params, t.pseen = nil, map[string]bool{}
	env := map[string]bool{v: true}
	var lhs string
	type arm struct{ cond, val string }
	var arms []arm
	hasDefault := false
	for _, c := range found.Body.List {
		cc := c.(*ast.CaseClause)
		if len(cc.Body) != 1 {
			fail(cc.Pos(), t.pkg.Fset, "switch arm is not a single assignment")
		}
		as, ok := cc.Body[0].(*ast.AssignStmt)
		if !ok || as.Tok != token.ASSIGN || len(as.Lhs) != 1 {
			fail(cc.Pos(), t.pkg.Fset, "switch arm is not a single assignment")
		}
		l := types.ExprString(as.Lhs[0])
		if lhs != "" && l != lhs {
			fail(cc.Pos(), t.pkg.Fset, "switch arms assign different variables")
		}
		lhs = l
		var val string
		if callee, ce := t.callOf(as.Rhs[0]); callee != "" {
			val = "(" + callee + " " + t.expr(ce.Args[0], env) + ")"
		} else {
			val = "some " + t.expr(as.Rhs[0], env)
		}
		cond := ""
		if cc.List == nil {
			hasDefault = true
		} else {
			cond = t.expr(cc.List[0], env)
		}
		arms = append(arms, arm{cond, val})
	}
	if !hasDefault {
		fail(found.Pos(), t.pkg.Fset, "switch without default")
	}
	body := ""
	for _, a := range arms {
		if a.cond == "" {
			body += "  " + a.val
		} else {
			body += fmt.Sprintf("  if %s then %s else\n", a.cond, a.val)
		}
	}
	sort.Strings(t.params)
	return fmt.Sprintf("/-- value assigned to `%s` -/\ndef %s (%s : BitVec 64) %s : Option (BitVec 64) :=\n%s\n",
		lhs, leanName, v, strings.Join(t.params, " "), body)
}

func main() {
	repo, out := os.Args[1], os.Args[2]
	cfg := &packages.Config{
		Mode: packages.NeedName | packages.NeedTypes | packages.NeedSyntax | packages.NeedTypesInfo | packages.NeedFiles,
		Dir:  repo, Env: append(os.Environ(), "GOOS=linux"),
	}
	pkgs, err := packages.Load(cfg, "./...")
	if err != nil {
		fmt.Fprintln(os.Stderr, "gotolean: load:", err)
		os.Exit(2)
	}
	byPath := map[string]*packages.Package{}
	for _, p := range pkgs {
		byPath[p.PkgPath] = p
	}
	known := map[string]string{}
	var b strings.Builder
	b.WriteString("-- GENERATED by tools/cmd/gotolean from the current gnet source; do not edit.\n")
	b.WriteString("-- `none` stands for a Go panic. Go `int` = BitVec 64 (two's complement).\n")
	b.WriteString("import Gnet.Basic.Bits\nnamespace Gnet.Gen\n\n")
	for _, s := range specs {
		p := byPath[mod+s.pkg]
		if p == nil {
			fmt.Fprintln(os.Stderr, "gotolean: package missing:", s.pkg)
			os.Exit(2)
		}
		var fd *ast.FuncDecl
		for _, f := range p.Syntax {
			for _, d := range f.Decls {
				if x, ok := d.(*ast.FuncDecl); ok && x.Name.Name == s.fn && x.Recv == nil {
					fd = x
				}
			}
		}
		if fd == nil {
			fmt.Fprintf(os.Stderr, "gotolean: function %s%s not found (tie broken)\n", s.pkg, s.fn)
			os.Exit(2)
		}
		t := &tr{pkg: p, info: p.TypesInfo, known: known}
		if s.switchVar != "" {
			b.WriteString(t.switchOver(fd, s.switchVar, s.lean))
		} else {
			b.WriteString(t.function(fd, s.lean))
			known[p.TypesInfo.Defs[fd.Name].(*types.Func).FullName()] = s.lean
		}
		b.WriteString("\n")
	}
	b.WriteString("end Gnet.Gen\n")
	if err := os.WriteFile(out, []byte(b.String()), 0o644); err != nil {
		panic(err)
	}
}
