// instr: rewrites, in a copy of a gnet source file, the atomic operations and system calls
// of the lock-free queue / the pollers into calls of the verifsched wrappers (same
// signatures, a scheduling point in front). Only selectors are renamed; nothing else in the
// file changes. usage: instr <in.go> <out.go> <comma-separated pkg.Func list>
package main

import (
	"fmt"
	"go/ast"
	"go/format"
	"go/parser"
	"go/token"
	"os"
	"strconv"
	"strings"
)

var schedPath = "github.com/panjf2000/gnet/v2/pkg/verifsched"
var schedName = "verifsched"

func main() {
	in, out := os.Args[1], os.Args[2]
	if len(os.Args) > 4 { // target package: import path, its name is the last path element
		schedPath = os.Args[4]
		schedName = schedPath[strings.LastIndex(schedPath, "/")+1:]
	}
	want := map[string]bool{}
	for _, w := range strings.Split(os.Args[3], ",") {
		want[w] = true
	}
	fset := token.NewFileSet()
	f, err := parser.ParseFile(fset, in, nil, parser.ParseComments)
	if err != nil {
		fmt.Fprintln(os.Stderr, "instr:", err)
		os.Exit(2)
	}
	// local names of imports
	names := map[string]string{} // local name -> last path element
	for _, im := range f.Imports {
		p, _ := strconv.Unquote(im.Path.Value)
		base := p[strings.LastIndex(p, "/")+1:]
		local := base
		if im.Name != nil {
			local = im.Name.Name
		}
		names[local] = base
	}
	rewritten := map[string]int{}
	used := map[string]int{}
	// calls listed as hook:<callee> (an epoll_wait(epfd, events, msec) function) become
	// verifsched.EpollWaitHook(msec, func(m int) (int, error) { return <callee>(epfd, events, m) })
	ast.Inspect(f, func(n ast.Node) bool {
		ce, ok := n.(*ast.CallExpr)
		if !ok || len(ce.Args) != 3 {
			return true
		}
		key := ""
		switch fn := ce.Fun.(type) {
		case *ast.Ident:
			key = "hook:" + fn.Name
		case *ast.SelectorExpr:
			if id, ok := fn.X.(*ast.Ident); ok {
				key = "hook:" + names[id.Name] + "." + fn.Sel.Name
			}
		}
		if key == "" || !want[key] {
			return true
		}
		inner := &ast.CallExpr{Fun: ce.Fun, Args: []ast.Expr{ce.Args[0], ce.Args[1], ast.NewIdent("verifM")}}
		lit := &ast.FuncLit{
			Type: &ast.FuncType{
				Params:  &ast.FieldList{List: []*ast.Field{{Names: []*ast.Ident{ast.NewIdent("verifM")}, Type: ast.NewIdent("int")}}},
				Results: &ast.FieldList{List: []*ast.Field{{Type: ast.NewIdent("int")}, {Type: ast.NewIdent("error")}}},
			},
			Body: &ast.BlockStmt{List: []ast.Stmt{&ast.ReturnStmt{Results: []ast.Expr{inner}}}},
		}
		msec := ce.Args[2]
		ce.Fun = &ast.SelectorExpr{X: ast.NewIdent(schedName), Sel: ast.NewIdent("EpollWaitHook")}
		ce.Args = []ast.Expr{msec, lit}
		rewritten[key]++
		return false
	})
	entries := map[string][]string{}
	for w := range want {
		if strings.HasPrefix(w, "entry:") {
			parts := strings.SplitN(w[6:], ":", 2)
			var exprs []string
			if len(parts) == 2 && parts[1] != "" {
				exprs = strings.Split(parts[1], ";")
			}
			entries[parts[0]] = exprs
		}
	}
	for _, decl := range f.Decls {
		fdecl, ok := decl.(*ast.FuncDecl)
		if !ok || fdecl.Body == nil {
			continue
		}
		if exprs, ok := entries[fdecl.Name.Name]; ok {
			args := []ast.Expr{&ast.BasicLit{Kind: token.STRING, Value: strconv.Quote(fdecl.Name.Name)}}
			for _, e := range exprs {
				x, err := parser.ParseExpr(e)
				if err != nil {
					fmt.Fprintf(os.Stderr, "instr: bad entry expression %q: %v\n", e, err)
					os.Exit(2)
				}
				args = append(args, x)
			}
			call := &ast.ExprStmt{X: &ast.CallExpr{Fun: &ast.SelectorExpr{X: ast.NewIdent(schedName), Sel: ast.NewIdent("Enter")}, Args: args}}
			fdecl.Body.List = append([]ast.Stmt{call}, fdecl.Body.List...)
			rewritten["entry:"+fdecl.Name.Name]++
		}
	}
	for name := range entries {
		if rewritten["entry:"+name] == 0 {
			fmt.Fprintf(os.Stderr, "instr: function %s not found in %s (tie broken)\n", name, in)
			os.Exit(2)
		}
	}
	for _, decl := range f.Decls {
		fdecl, ok := decl.(*ast.FuncDecl)
		if !ok || fdecl.Body == nil {
			continue
		}
		encl := fdecl.Name.Name
		ast.Inspect(fdecl.Body, func(n ast.Node) bool {
			ce, ok := n.(*ast.CallExpr)
			if !ok || len(ce.Args) != 4 {
				return true
			}
			key := ""
			switch fn := ce.Fun.(type) {
			case *ast.Ident:
				key = "hookctl:" + fn.Name
			case *ast.SelectorExpr:
				if id, ok := fn.X.(*ast.Ident); ok {
					key = "hookctl:" + names[id.Name] + "." + fn.Sel.Name
				}
			}
			if key == "" || !want[key] {
				return true
			}
			inner := &ast.CallExpr{Fun: ce.Fun, Args: ce.Args}
			lit := &ast.FuncLit{
				Type: &ast.FuncType{Params: &ast.FieldList{}, Results: &ast.FieldList{List: []*ast.Field{{Type: ast.NewIdent("error")}}}},
				Body: &ast.BlockStmt{List: []ast.Stmt{&ast.ReturnStmt{Results: []ast.Expr{inner}}}},
			}
			*ce = ast.CallExpr{Fun: &ast.SelectorExpr{X: ast.NewIdent(schedName), Sel: ast.NewIdent("EpollCtlHook")},
				Args: []ast.Expr{&ast.BasicLit{Kind: token.STRING, Value: strconv.Quote(encl)}, ce.Args[2], lit}}
			rewritten[key]++
			return false
		})
	}
	ast.Inspect(f, func(n ast.Node) bool {
		se, ok := n.(*ast.SelectorExpr)
		if !ok {
			return true
		}
		id, ok := se.X.(*ast.Ident)
		if !ok {
			return true
		}
		base, isPkg := names[id.Name]
		if !isPkg || id.Obj != nil {
			return true
		}
		key := base + "." + se.Sel.Name
		if want[key] {
			id.Name = schedName
			rewritten[key]++
		} else {
			used[id.Name]++
		}
		return true
	})
	if len(rewritten) == 0 {
		fmt.Fprintf(os.Stderr, "instr: none of %s found in %s (tie broken)\n", os.Args[3], in)
		os.Exit(2)
	}
	// add the verifsched import, drop imports that became unused
	var specs []ast.Spec
	for _, d := range f.Decls {
		gd, ok := d.(*ast.GenDecl)
		if !ok || gd.Tok != token.IMPORT {
			continue
		}
		for _, sp := range gd.Specs {
			im := sp.(*ast.ImportSpec)
			p, _ := strconv.Unquote(im.Path.Value)
			local := p[strings.LastIndex(p, "/")+1:]
			if im.Name != nil {
				local = im.Name.Name
			}
			if local != "_" && local != "." && used[local] == 0 && names[local] != "" {
				continue
			}
			specs = append(specs, sp)
		}
		specs = append(specs, &ast.ImportSpec{Path: &ast.BasicLit{Kind: token.STRING, Value: strconv.Quote(schedPath)}})
		gd.Specs = specs
		gd.Lparen = 1
		break
	}
	var b strings.Builder
	if err := format.Node(&b, fset, f); err != nil {
		fmt.Fprintln(os.Stderr, "instr:", err)
		os.Exit(2)
	}
	if err := os.WriteFile(out, []byte(b.String()), 0o644); err != nil {
		fmt.Fprintln(os.Stderr, "instr:", err)
		os.Exit(2)
	}
	fmt.Fprintf(os.Stderr, "instr: %s: %v\n", in, rewritten)
}
