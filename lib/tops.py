"""Generic runner for proof + T-ops correspondence properties (DESIGN.md 4.2, 5)."""
import subprocess
import glob, hashlib, json, os, re, sys, time
import vlib
from vlib import log


class Component:
    """One implementation component tied to one model component through an op stream."""
    name = ""            # harness/drivers/<name>
    model = ""           # gnetmodel <model>
    tags = ("verif",)
    overlay = None       # {repo-relative dst: harness/overlay-relative src}
    with_model = True
    variants = None      # optional list of extra tag tuples (e.g. gc_opt) built and run as well
    suffix = ""          # distinguishes binaries of components sharing a driver and tags

    def prepare(self):
        """called before the driver is built (e.g. to derive overlay sources from /repo); returns error text or None"""
        return None

    def gen_args(self, tier, seed):
        """list of argument lists for `driver -mode gen ...`"""
        n = 3000 if tier == "quick" else 40000
        return [["-seed", str(seed), "-cases", str(n)]]

    def nontrivial(self, cr):
        return len(cr.ops) > 2

    def finding_id(self, cr):
        """id of the known finding the (minimised) failing case matches, or None"""
        return None

    def extra_env(self):
        return None


def case_hash(ops):
    return hashlib.sha1("\n".join(ops).encode()).hexdigest()


def run(prop, components, tier, lean_targets=(), level_text="", assumptions=(), replay=None, partial_note=""):
    t0 = time.time()
    seed = vlib.seed()
    vlib.CURRENT_PROP[0] = prop
    vlib.OTHER.clear()
    # all minimisation of one run shares a wall-clock allowance (a failing case is reported unminimised beyond it)
    vlib.MINIMISE_DEADLINE[0] = None
    minimise_allowance = 240 if tier == "quick" else 1500
    if os.environ.get("VERIF_NO_MINIMISE") == "1":      # regression runs against seeded changes: the verdict is enough
        minimise_allowance = 0
    if replay:
        return do_replay(prop, components, replay)
    st = vlib.lean_stage(prop, list(lean_targets), tier)
    for b in st["broken"]:
        log("BROKEN:", b[:2000])
    known = {f["id"]: f for f in vlib.load_findings(prop)}
    known_hit = {}
    violations = []      # replay payloads
    corr_broken = []     # minimised disagreements without oracle failure
    evals = 0
    distinct = set()
    samples = []
    dist = {}
    disagreements_checked = 0
    crashes = []

    for comp in components:
        tagsets = [tuple(comp.tags)] + [tuple(v) for v in (comp.variants or [])]
        for tags in tagsets:
            perr = comp.prepare()
            if perr:
                st["broken"].append(perr)
                continue
            drv, err = vlib.build_driver(comp.name, tags, comp.overlay, suffix=comp.suffix, race=getattr(comp, "race", False))
            if drv is None:
                st["broken"].append("driver %s (%s) does not build against the current source: %s" % (comp.name, ",".join(tags), err[-800:]))
                continue
            with_model = comp.with_model and st["model_ok"]
            batches = []
            cdir = os.path.join(vlib.VERIF, "corpus", prop)
            for f in sorted(glob.glob(os.path.join(cdir, comp.name + comp.suffix + "-*.ops"))):
                batches.append(("corpus:" + os.path.basename(f), open(f).read()))
            for ga in comp.gen_args(tier, seed):
                try:
                    p = vlib.run([drv, "-mode", "gen"] + ga, env=vlib.GOENV, timeout=420 if tier == "quick" else 3600)   # an idle machine needs 55-80 s for the largest quick generator (schedule enumeration of the wake driver); the limit is there for implementations that hang
                except subprocess.TimeoutExpired:
                    # some generators drive the real code to enumerate its scheduling points: a hang there is a hang of the code
                    st["broken"].append("generator of driver %s (%s) did not finish: the implementation hangs while its schedules are enumerated" % (comp.name, " ".join(ga)))
                    continue
                if p.returncode != 0:
                    err = p.stderr if len(p.stderr) <= 1600 else p.stderr[:700] + " [...] " + p.stderr[-900:]
                    st["broken"].append("generator of driver %s failed: %s" % (comp.name, err))
                    continue
                m = re.search(r"DIST (.*)", p.stderr)
                if m:
                    dist["%s %s" % (comp.name, " ".join(ga))] = m.group(1)[:1500]
                batches.append(("gen:" + " ".join(ga), p.stdout))
            failing = []
            for label, text in batches:
                cases = vlib.split_cases(text)
                if not cases:
                    continue
                res, crash = vlib.run_cases(drv, comp.model, cases, with_model, comp.extra_env())
                if crash:
                    crashes.append("%s %s: %s" % (comp.name, label, crash[-600:]))
                for cr in res:
                    evals += 1
                    if comp.nontrivial(cr):
                        distinct.add(case_hash(cr.ops))
                    if len(samples) < 3 and len(cr.ops) > 3 and not cr.failed:
                        samples.append({"component": comp.name, "ops": cr.ops[:12], "impl": [l[:160] for l in cr.impl[:12]]})
                    if cr.failed:
                        failing.append((label, cr))
            log("%s[%s]: %d cases so far, %d failing in this component" % (comp.name, ",".join(tags), evals, len(failing)))
            # minimise a bounded number of failing cases per signature
            seen_sig = {}
            for label, cr in failing:
                disagreements_checked += 1
                # a failing case that matches a listed finding as it stands needs no minimisation
                if cr.oracle:
                    cutop = min(o for o, _ in cr.oracle)
                    tcr = vlib.CaseResult(cr.cid, cr.ops[:cutop])
                    tcr.impl, tcr.model = cr.impl[:cutop], cr.model[:cutop]
                    tcr.oracle = [(o, m) for o, m in cr.oracle if o == cutop]
                    fid0 = comp.finding_id(tcr)
                    fids = [fid0] if isinstance(fid0, str) else (fid0 or [])
                    if fids and all(f in known for f in fids):
                        for f in fids:
                            known_hit[f] = known[f]
                        continue
                sig0 = (bool(cr.oracle), (cr.ops[min(cr.first_diff if cr.first_diff is not None else (cr.oracle[0][0] - 1), len(cr.ops) - 1)].split()[0]))
                if seen_sig.get(sig0, 0) >= 3:
                    continue
                seen_sig[sig0] = seen_sig.get(sig0, 0) + 1
                want_oracle = bool(cr.oracle)
                def osig(msgs):
                    return set(re.sub(r"[0-9a-f]{2,}|\d+", "#", m)[:60] for _, m in msgs)
                want_sig = osig(cr.oracle)
                pred = (lambda r: bool(osig(r.oracle) & want_sig)) if want_oracle else (lambda r: r.first_diff is not None and not r.oracle)
                ops = cr.ops
                cut = (max(o for o, _ in cr.oracle) if want_oracle else cr.first_diff + 1)
                ops = ops[:max(cut, 1)] if not want_oracle else ops[:max(min(o for o, _ in cr.oracle), 1)]
                if vlib.MINIMISE_DEADLINE[0] is None:
                    vlib.MINIMISE_DEADLINE[0] = time.time() + minimise_allowance
                try:
                    small = vlib.minimise(drv, comp.model, ops, pred, with_model, comp.extra_env(),
                                          seconds=60 if tier == "quick" else 300)
                except Exception as e:  # keep the unminimised case
                    log("minimise failed:", e)
                    small = ops
                r, _ = vlib.run_cases(drv, comp.model, [("m", small)], with_model, comp.extra_env())
                mcr = r[0]
                if not mcr.failed:
                    mcr = cr
                    small = cr.ops
                payload = dict(property=prop, component=comp.name + comp.suffix, tags=list(tags), seed=seed, source=label,
                               ops=small, original_ops=cr.ops[:400], impl=mcr.impl, model=mcr.model,
                               oracle=["op %d: %s" % (o, m) for o, m in mcr.oracle],
                               first_model_disagreement=mcr.first_diff)
                if mcr.oracle:
                    fid = comp.finding_id(mcr)
                    fids = [fid] if isinstance(fid, str) else (fid or [])
                    if fids and all(f in known for f in fids):
                        for f in fids:
                            known_hit[f] = known[f]
                        continue
                    payload["kind"] = "property oracle fails on the implementation"
                    violations.append(payload)
                else:
                    payload["kind"] = "correspondence broken: model and implementation disagree, the property oracle holds on this input"
                    payload["broken"] = "correspondence %s <-> gnetmodel %s" % (comp.name, comp.model)
                    corr_broken.append(payload)

    # ---- verdict
    out_lines = []
    nviol = 0
    for fid, f in known_hit.items():
        out_lines.append("KNOWN-FINDING: property=%s %s" % (prop, f["description"]))
    uniq = {}
    for v in violations:
        key = (v["component"], v["ops"][-1].split()[0], (v["oracle"][0].split(":", 1)[1][:40] if v["oracle"] else ""))
        uniq.setdefault(key, v)
    for v in uniq.values():
        path = vlib.write_replay(prop, v)
        out_lines.append("VIOLATION property=%s replay=%s" % (prop, path))
        nviol += 1
    if not uniq:
        nf = []
        if corr_broken:
            seen = set()
            for v in corr_broken:
                key = (v["component"], v["ops"][-1].split()[0])
                if key in seen:
                    continue
                seen.add(key)
                nf.append(v)
        unexplained_broken = [b for b in st["broken"]]
        if unexplained_broken and not known_hit_explains(st, known_hit):
            nf.append(dict(property=prop, kind="proof obligation or tie no longer checks", broken=unexplained_broken, seed=seed))
        for c in crashes:
            nf.append(dict(property=prop, kind="driver crashed", broken=[c], seed=seed))
        for v in nf:
            path = vlib.write_replay(prop, v)
            out_lines.append("VIOLATION property=%s replay=%s no-failing-input-found" % (prop, path))
            nviol += 1
    for l in out_lines:
        print(l, flush=True)

    ths = st["theorems"]
    obligations = len(vlib.theorem_names(prop)) if os.path.exists(os.path.join(vlib.LEAN, "Gnet", "Props", prop + ".lean")) else 0
    discharged = len([t for t, ax in ths.items() if all(a in vlib.ALLOWED_AXIOMS for a in ax)]) if st["proof_ok"] else 0
    cov = dict(
        obligations=obligations, discharged=discharged,
        checker_cmd="cd lean && lake build Gnet.Props.%s && lake env lean Gnet/Audit/%s.lean%s" % (prop, prop, " && lake env leanchecker Gnet.Props." + prop if tier == "thorough" else ""),
        trusted_base=vlib.TRUSTED_BASE,
        theorems={t: ax for t, ax in ths.items()},
        evaluations=evals, distinct_nontrivial=len(distinct),
        rule="cases = corpus + seeded op sequences from the driver's generator (sizes biased to the property's boundaries); a case counts as distinct non-trivial when its op list is unique and it reached a boundary state (component-specific: wrap, growth, full buffer, switch-over, relocation, ...)",
        samples=samples or [{"note": "no passing sample recorded"}],
        disagreements_checked=disagreements_checked,
        input_distribution=dict(dist, **({"oracle messages of other properties (left to their checks)": str(dict(vlib.OTHER))} if vlib.OTHER else {})),
        proof_scope=level_text, partial=partial_note,
        broken=st["broken"], known_findings=sorted(known_hit),
        leanchecker=st.get("leanchecker"),
    )
    vlib.write_evidence(prop, tier, "proof", cov, list(assumptions), time.time() - t0, nviol)
    return 1 if nviol else 0


def known_hit_explains(st, known_hit):
    return False


def do_replay(prop, components, path):
    payload = json.load(open(path))
    if "ops" not in payload:
        print(json.dumps(payload, indent=1)[:3000])
        print("replay: this file names a broken proof obligation / tie; re-run the check to re-evaluate it")
        return 0
    comp = [c for c in components if c.name + c.suffix == payload["component"]][0]
    with vlib.Lock():
        vlib.build_tools()
        vlib.regenerate()
        vlib.lake_build(["gnetmodel"])
    comp.prepare()
    drv, err = vlib.build_driver(comp.name, tuple(payload.get("tags", comp.tags)), comp.overlay, suffix=comp.suffix,
                                 race=getattr(comp, "race", False))
    if drv is None:
        print("driver does not build:", err)
        return 2
    r, crash = vlib.run_cases(drv, comp.model, [("replay", payload["ops"])], comp.with_model, comp.extra_env())
    cr = r[0]
    for i, op in enumerate(cr.ops):
        a = cr.impl[i] if i < len(cr.impl) else "<missing>"
        b = cr.model[i] if i < len(cr.model) else "<missing>"
        print("%-40s impl : %s" % (op[:40], a[:200]))
        if a != b:
            print("%-40s model: %s" % ("", b[:200]))
    for o, m in cr.oracle:
        print("ORACLE-FAIL op %d: %s" % (o, m))
    if cr.failed:
        print("VIOLATION property=%s replay=%s" % (prop, path))
        return 1
    print("replay passes on the current tree")
    return 0
