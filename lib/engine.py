"""The engine component shared by C06, C19 (and the runtime halves of C05, C15, C17)."""
import re
import tops
from props.c20 import OVERLAY


class EngineC(tops.Component):
    name = "engine"
    model = "engine"
    overlay = OVERLAY
    ncases = (30, 600)

    def gen_args(self, tier, seed):
        n = self.ncases[0] if tier == "quick" else self.ncases[1]
        return [["-seed", str(seed), "-cases", str(n)]]

    def nontrivial(self, cr):
        return any("open:c" in l for l in cr.impl)

    def finding_id(self, cr):
        """no open finding concerns this component any more (the stranded hand-overs and the unanswered Register
        calls were fixed in /repo: 0887da1)"""
        return None


class EngineZone(EngineC):
    """client lives against a link-local IPv6 peer (addresses with a zone): the runtime half of C17"""
    suffix = ""
    ncases = (6, 60)

    def gen_args(self, tier, seed):
        n = self.ncases[0] if tier == "quick" else self.ncases[1]
        return [["-seed", str(seed), "-cases", str(n), "-only", "zone"]]


class EngineHammer(EngineC):
    """the drain-and-abort protocol (Model/Drain.lean) on the real closeConns / abortPending / accept0 / enroll: two
    goroutines per round, many rounds with a sweeping start offset; the model predicts that nothing is stranded"""
    suffix = "-hm"
    ncases = (4, 32)

    def gen_args(self, tier, seed):
        n = self.ncases[0] if tier == "quick" else self.ncases[1]
        return [["-seed", str(seed), "-cases", str(n), "-only", "hammer"]]

    def nontrivial(self, cr):
        return any("handed=" in l for l in cr.impl)


class EngineHandover(EngineC):
    """server lives built against instrumented copies of connection_unix.go / eventloop_unix.go that log every
    hand-over, registration, close and loop exit in one global order; the Lean hand-over model replays the
    events (FIFO hand-over per loop) and predicts how many descriptors stay unclosed when everything stopped"""
    tags = ("verif", "handover")
    suffix = "-ho"
    ncases = (36, 600)
    PLAN = [("connection_unix.go", "entry:newStreamConn:fd;el.idx"),
            ("acceptor_unix.go", "socket.Accept,entry:accept0:fd,entry:accept:fd"),
            ("eventloop_unix.go", "socket.Dup,entry:register0:c.fd;el.idx,entry:close:c.fd;el.idx,entry:closeConns:el.idx")]

    def __init__(self):
        self.overlay = dict(OVERLAY)
        self.overlay["pkg/verifsys/vsys.go"] = "vsys/vsys.go"

    def prepare(self):
        import os
        import vlib
        from props.c13 import instrument
        p = vlib.run(["go", "build", "-o", os.path.join(vlib.BIN, "instr"), "./cmd/instr"], cwd=os.path.join(vlib.VERIF, "tools"), env=vlib.GOENV)
        if p.returncode != 0:
            return "cannot build the instrumenter: " + p.stderr[-400:]
        for rel, funcs in self.PLAN:
            out, err = instrument(rel, funcs, "github.com/panjf2000/gnet/v2/pkg/verifsys", tag="handover__")
            if err:
                return err
            self.overlay[rel] = out
        return None

    def nontrivial(self, cr):
        return any(" E:" in l for l in cr.impl)


class EngineClient(EngineC):
    """client lives only (gnet.Client against a plain Go peer): the client half of C01, C02, C03, C04"""
    ncases = (10, 200)

    def gen_args(self, tier, seed):
        n = self.ncases[0] if tier == "quick" else self.ncases[1]
        return [["-seed", str(seed), "-cases", str(n), "-only", "all"]]


class EngineRace(EngineC):
    """the same engine lives built with the race detector, while foreign goroutines hammer the
    concurrency-safe API from OnBoot / OnOpen on; every race report is an oracle failure"""
    suffix = "-race"
    with_model = False
    race = True
    ncases = (24, 300)

    def extra_env(self):
        return {"VERIF_HAMMER": "1", "VERIF_CASE_MARK": "1", "GORACE": "halt_on_error=0 exitcode=0"}

    def finding_id(self, cr):
        """every oracle message of the case must be explained by a listed finding"""
        ids = set()
        for _, m in cr.oracle:
            if "data race" in m and "(*listener).close" in m and "(*listener).dup" in m:
                ids.add("race-dup-vs-listener-close")
            elif "data race" in m and any(w in m for w in ("activateReactors", "runEventLoops", "OpenPoller", "NewLockFreeQueue", "baseLoadBalancer).register")) \
                    and any(r in m for r in ("gnet.Engine.", "enroll.func1", "(*eventloop).Register", "(*eventloop).Enroll", "(*Poller).Trigger")):
                ids.add("race-engine-handle-published-in-onboot")
            else:
                return None
        return sorted(ids) or None
