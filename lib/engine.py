"""The engine component shared by C06, C19 (and the runtime halves of C05, C15, C17)."""
import tops
from props.c20 import OVERLAY


class EngineC(tops.Component):
    name = "engine"
    model = "engine"
    overlay = OVERLAY
    ncases = (30, 600)

    def gen_args(self, tier, seed):
        n = self.ncases[0] if tier == "quick" else self.ncases[1]
        return [["-seed", str(seed), "-cases", str(n)]]

    def nontrivial(self, cr):
        return any("open:c" in l for l in cr.impl)

    def finding_id(self, cr):
        if cr.ops and " regrace " in cr.ops[-1] and cr.oracle and all("C19: an accepted Register call delivered no result" in m for _, m in cr.oracle):
            return "register-races-with-shutdown"
        return None


class EngineRace(EngineC):
    """the same engine lives built with the race detector, while foreign goroutines hammer the
    concurrency-safe API from OnBoot / OnOpen on; every race report is an oracle failure"""
    suffix = "-race"
    with_model = False
    race = True
    ncases = (24, 300)

    def extra_env(self):
        return {"VERIF_HAMMER": "1", "VERIF_CASE_MARK": "1", "GORACE": "halt_on_error=0 exitcode=0"}

    def finding_id(self, cr):
        """every oracle message of the case must be explained by a listed finding"""
        ids = set()
        for _, m in cr.oracle:
            if "C19: an accepted Register call delivered no result" in m:
                ids.add("register-races-with-shutdown")
            elif "data race" in m and "(*listener).close" in m and "(*listener).dup" in m:
                ids.add("race-dup-vs-listener-close")
            elif "data race" in m and any(w in m for w in ("activateReactors", "runEventLoops", "OpenPoller", "NewLockFreeQueue", "baseLoadBalancer).register")) \
                    and any(r in m for r in ("gnet.Engine.", "enroll.func1", "(*eventloop).Register", "(*eventloop).Enroll", "(*Poller).Trigger")):
                ids.add("race-engine-handle-published-in-onboot")
            else:
                return None
        return sorted(ids) or None
