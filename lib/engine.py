"""The engine component shared by C06, C19 (and the runtime halves of C05, C15, C17)."""
import tops
from props.c20 import OVERLAY


class EngineC(tops.Component):
    name = "engine"
    model = "engine"
    overlay = OVERLAY
    ncases = (30, 600)

    def gen_args(self, tier, seed):
        n = self.ncases[0] if tier == "quick" else self.ncases[1]
        return [["-seed", str(seed), "-cases", str(n)]]

    def nontrivial(self, cr):
        return any("open:c" in l for l in cr.impl)

    def finding_id(self, cr):
        if cr.ops and " regrace " in cr.ops[-1] and cr.oracle and all("C19: an accepted Register call delivered no result" in m for _, m in cr.oracle):
            return "register-races-with-shutdown"
        return None
