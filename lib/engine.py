"""The engine component shared by C06, C19 (and the runtime halves of C05, C15, C17)."""
import re
import tops
from props.c20 import OVERLAY


class EngineC(tops.Component):
    name = "engine"
    model = "engine"
    overlay = OVERLAY
    ncases = (30, 600)

    def gen_args(self, tier, seed):
        n = self.ncases[0] if tier == "quick" else self.ncases[1]
        return [["-seed", str(seed), "-cases", str(n)]]

    def nontrivial(self, cr):
        return any("open:c" in l for l in cr.impl)

    def finding_id(self, cr):
        """every oracle message of the case must be explained by a listed finding"""
        if not cr.ops or not cr.oracle:
            return None
        ws = cr.ops[-1].split()
        ids = set()
        for _, m in cr.oracle:
            if ws[0] == "life" and ws[6] == "regrace" and "C19: an accepted Register call delivered no result" in m:
                ids.add("register-races-with-shutdown")
            elif ws[0] == "life" and not (ws[3] == "1" and ws[1] != "unix") and int(ws[5]) > 0 and "C07:" in m and "after Run returned" in m \
                    and re.search(r"leaked (socket\(connected\),?)+$", m.strip()):
                ids.add("accepted-socket-leaks-when-loop-exits-first")
            else:
                return None
        return sorted(ids) or None


class EngineRace(EngineC):
    """the same engine lives built with the race detector, while foreign goroutines hammer the
    concurrency-safe API from OnBoot / OnOpen on; every race report is an oracle failure"""
    suffix = "-race"
    with_model = False
    race = True
    ncases = (24, 300)

    def extra_env(self):
        return {"VERIF_HAMMER": "1", "VERIF_CASE_MARK": "1", "GORACE": "halt_on_error=0 exitcode=0"}

    def finding_id(self, cr):
        """every oracle message of the case must be explained by a listed finding"""
        ids = set()
        for _, m in cr.oracle:
            if "C19: an accepted Register call delivered no result" in m:
                ids.add("register-races-with-shutdown")
            elif "data race" in m and "(*listener).close" in m and "(*listener).dup" in m:
                ids.add("race-dup-vs-listener-close")
            elif "data race" in m and any(w in m for w in ("activateReactors", "runEventLoops", "OpenPoller", "NewLockFreeQueue", "baseLoadBalancer).register")) \
                    and any(r in m for r in ("gnet.Engine.", "enroll.func1", "(*eventloop).Register", "(*eventloop).Enroll", "(*Poller).Trigger")):
                ids.add("race-engine-handle-published-in-onboot")
            else:
                return None
        return sorted(ids) or None
