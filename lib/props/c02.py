"""C02: outbound stream integrity and ordering (reactor model + trace acceptance)."""
import tops
from engine import EngineClient
from reactor import components
from props.c03 import WakeC, WakeOpt
from props.c10 import ElasticC
from props.c11 import LinkedList


class WakeOrder(WakeC):
    """the hand-over half of C02 ('asynchronous writes issued by one goroutine in issue order'): the wake-up
    protocol under schedule exploration, fewer cases than in C03's own check"""
    def gen_args(self, tier, seed):
        if tier == "quick":
            return [["-seed", str(seed + 7), "-cases", "120", "-exhaustive", "0"], ["-seed", str(seed + 7), "-cases", "0", "-exhaustive", "300"]]
        return [["-seed", str(seed + 7), "-cases", "2000", "-exhaustive", "0"], ["-seed", str(seed + 7), "-cases", "0", "-exhaustive", "10000"]]


class WakeOrderOpt(WakeOpt):
    gen_args = WakeOrder.gen_args


def main(tier, replay):
    return tops.run("C02", components(['stream']) + [WakeOrder(), WakeOrderOpt(), EngineClient(), ElasticC(), LinkedList()], tier,
                    level_text="Props/C02.lean: toKernel ++ outbound = accepted is an invariant of every accepted round. The model is a trace acceptor over abstract FIFO buffers (justified by the C09/C10/C11 refinements); it is tied to the code by trace acceptance: one REAL event loop on real sockets runs step by step, every system call goes through a logging / fault-injecting shim, and every round's log must be accepted by the model (kernel results and handler actions are inputs, system-call requests, callbacks and method results are predictions). Independent oracles check the property end to end on the same runs",
                    assumptions=["Linux socket and epoll semantics (real kernel in the runs, inputs of the model)",
                                 "instrumentation (selector renaming to the shim, entry logging) does not change behaviour",
                                 "the Go scheduler and multi-loop timing are outside the model (C03/C13 cover the hand-over protocol)"],
                    replay=replay,
                    partial_note="proved on the model; the runtime (kernel, scheduler) is exercised, not proved")
