"""C14: the connection registry is a faithful map from descriptor to live connection."""
import os, re
import tops, vlib
from props.c20 import OVERLAY

SMALL_GFD = os.path.join(vlib.BIN, "gfd_small.go")


class RegMapC(tops.Component):
    name = "registry"
    model = "registry"
    overlay = OVERLAY
    suffix = "-map"

    def gen_args(self, tier, seed):
        n = 1500 if tier == "quick" else 20000
        return [["-seed", str(seed), "-cases", str(n), "-kind", "map", "-bigevery", "0"]]

    def nontrivial(self, cr):
        return any(o.startswith("del") for o in cr.ops) and any(o.startswith("iter") for o in cr.ops)


class RegMatrixSmall(tops.Component):
    """conn_matrix.go compiled against a copy of the current gfd.go whose two dimension
    constants are replaced by 4 x 8, so that row boundaries are crossed by tiny populations."""
    name = "registry"
    model = "registry"
    tags = ("verif", "gc_opt")
    suffix = "-small"
    overlay = dict(OVERLAY, **{"internal/gfd/gfd.go": SMALL_GFD})

    def prepare(self):
        src = open(os.path.join(vlib.REPO, "internal/gfd/gfd.go")).read()
        s, n1 = re.subn(r"ConnMatrixRowMax(\s*)=\s*math\.MaxUint8 \+ 1", r"ConnMatrixRowMax\1= 4", src)
        s, n2 = re.subn(r"ConnMatrixColumnMax(\s*)=\s*math\.MaxUint16 \+ 1", r"ConnMatrixColumnMax\1= 8", s)
        if n1 != 1 or n2 != 1:
            return "tie broken: the dimension constants of internal/gfd/gfd.go are no longer `math.MaxUint8 + 1` / `math.MaxUint16 + 1`"
        os.makedirs(vlib.BIN, exist_ok=True)
        vlib.write_if_changed(SMALL_GFD, s)
        return None

    def gen_args(self, tier, seed):
        n = 3000 if tier == "quick" else 40000
        return [["-seed", str(seed), "-cases", str(n), "-kind", "matrix", "-bigevery", "3"]]

    def nontrivial(self, cr):
        # a relocation happened (cursor moved back) or the population crossed a row boundary
        t = "\n".join(cr.impl)
        return bool(re.search(r"cursor=[1-9]", t)) and any(o.startswith("del") for o in cr.ops)


class RegMatrixFull(tops.Component):
    """the registry at its real dimensions (256 x 65536): oracle only."""
    name = "registry"
    model = "registry"
    tags = ("verif", "gc_opt")
    suffix = "-full"
    overlay = OVERLAY
    with_model = False

    def gen_args(self, tier, seed):
        n = 6 if tier == "quick" else 60
        return [["-seed", str(seed), "-cases", str(n), "-kind", "matrix", "-bigevery", "2"]]

    def nontrivial(self, cr):
        return len(cr.ops) > 65536


def main(tier, replay):
    return tops.run("C14", [RegMapC(), RegMatrixSmall(), RegMatrixFull()], tier,
                    level_text="refinement of the matrix registry (any dimensions) and the map registry to a finite map fd -> connection for all add/remove/lookup/iterate sequences (Props/C14.lean); tie: T-ops correspondence on conn_matrix.go compiled at 4x8 (dimension constants substituted in a copy of the current gfd.go) and a reference-map oracle at the real 256x65536 and on conn_map.go",
                    assumptions=["removals concern registered connections, registrations concern descriptors not currently registered (what gnet's event loop does)",
                                 "partial iteration with removal is outside the property"],
                    replay=replay)
