"""C16: address parsing and option normalisation are total and exact."""
import tops
from props.c20 import OVERLAY


class Norm(tops.Component):
    name = "arith"
    model = "arith"
    overlay = OVERLAY
    suffix = "-norm"

    def gen_args(self, tier, seed):
        n = 1500 if tier == "quick" else 50000
        return [["-seed", str(seed), "-cases", str(n), "-kind", "norm"]]

    def nontrivial(self, cr):
        return any(o.startswith(("norm", "evloops")) for o in cr.ops)


class Parse(tops.Component):
    name = "arith"
    model = "arith"
    overlay = OVERLAY
    suffix = "-parse"

    def gen_args(self, tier, seed):
        n = 20000 if tier == "quick" else 400000
        return [["-seed", str(seed), "-cases", str(n), "-kind", "parse"]]

    def nontrivial(self, cr):
        return bool(cr.impl) and cr.impl[0].startswith("r=ok")


def main(tier, replay):
    return tops.run("C16", [Norm(), Parse()], tier,
                    level_text="proof for the normalisation half: theorems for all int values about the buffer-capacity switches and determineEventLoops REGENERATED from gnet.go/client_unix.go, and about the chunk normalisation (Props/C16.lean). Partial for parsing: gnet's own dispatch on the result of net/url.Parse and path.Join is modelled and proved total and exact; net/url and path themselves are inputs (modelled, not verified). Tie: regeneration + differential run; for parsing the real parseProtoAddr is compared with the dispatch model fed with url.Parse's actual result, and an oracle demands the endpoint exactly as written for grammar-generated addresses and the documented errors",
                    assumptions=["net/url.Parse and path.Join are trusted (their results are inputs of the model)", "translator gotolean"],
                    replay=replay,
                    partial_note="address parsing: only gnet's dispatch is proved; 'never panics for every string' rests on net/url (fuzzed by the malformed stream, not proved)")
