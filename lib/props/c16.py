"""C16: address parsing and option normalisation are total and exact."""
import tops
from props.c20 import OVERLAY


class Norm(tops.Component):
    name = "arith"
    model = "arith"
    overlay = OVERLAY
    suffix = "-norm"

    def gen_args(self, tier, seed):
        n = 1500 if tier == "quick" else 50000
        return [["-seed", str(seed), "-cases", str(n), "-kind", "norm"]]

    def nontrivial(self, cr):
        return any(o.startswith(("norm", "evloops")) for o in cr.ops)


class Parse(tops.Component):
    name = "arith"
    model = "arith"
    overlay = OVERLAY
    suffix = "-parse"

    def gen_args(self, tier, seed):
        n = 20000 if tier == "quick" else 400000
        return [["-seed", str(seed), "-cases", str(n), "-kind", "parse"]]

    def nontrivial(self, cr):
        return bool(cr.impl) and cr.impl[0].startswith("r=ok")


def main(tier, replay):
    return tops.run("C16", [Norm(), Parse()], tier,
                    level_text="proof for the normalisation half: theorems for all int values about the buffer-capacity switches and determineEventLoops REGENERATED from gnet.go/client_unix.go, and about the chunk normalisation (Props/C16.lean). Parsing: an executable Lean model of Go 1.23 net/url.Parse (scheme, authority, host, port, zone and %-escape handling, query/fragment/opaque forms, control bytes) and of path.Join/path.Clean composed with gnet's dispatch (Model/Url.lean); theorems: parse_ip_exact (host:port exactly as written for names, dotted IPv4, bracketed IPv6 with and without zone: the %25 escaping and the zone unescaping cancel), parse_unix_exact / parse_unix_clean, parse_total (success always names one of the seven schemes and a non-empty endpoint), parse_unknown_scheme, parse_no_scheme, parse_no_scheme_name. Tie: on every generated and fuzzed address the model of url.Parse must agree with Go's on error-or-not, scheme, host, path, the joined path and the final result, and the property oracle demands the endpoint exactly as written for grammar-generated addresses",
                    assumptions=["net/url.Parse and path.Join are trusted (their results are inputs of the model)", "translator gotolean"],
                    replay=replay,
                    partial_note="net/url and path are modelled (validated by the correspondence on grammar-generated and fuzzed addresses), not verified; 'never panics' holds for the total model and is fuzzed on the implementation")
