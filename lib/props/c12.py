"""C12: pooled memory is exclusively owned: no aliasing, no out-of-bounds."""
import tops
from props.c20 import OVERLAY


from props.c11 import LinkedList
from props.c10 import ElasticC


class PoolC(tops.Component):
    name = "pool"
    model = "pool"
    overlay = OVERLAY

    def gen_args(self, tier, seed):
        n = 3000 if tier == "quick" else 50000
        return [["-seed", str(seed), "-cases", str(n)]]

    def nontrivial(self, cr):
        # a Get was served from a pointer stored by an earlier Put
        return any("base=" in l and not l.endswith("+0") for l in cr.impl) or sum(1 for o in cr.ops if o.startswith("put")) >= 3


def main(tier, replay):
    return tops.run("C12", [PoolC(), LinkedList(), ElasticC()], tier,   # the users of the pool: pooled memory that is handed out twice shows as corrupted content there
                   
                    level_text="invariant proof on a model of the byte-slice pool over abstract memory (Props/C12.lean): Get shape, Put never stores more than the slice owns, stored and outstanding regions pairwise disjoint for all histories and all sync.Pool choices; call-site table regenerated from the source; tie: T-ops with an address ledger and canaries on the real pool (sync.Pool's choices are inputs of the model)",
                    assumptions=["sync.Pool returns only pointers that were Put (or nothing); GC may drop stored pointers",
                                 "caller discipline: a slice is Put at most once and not used afterwards - audited per call site (Props/C12.lean table), not proved about Go"],
                    replay=replay,
                    partial_note="the 'consequently' clause rests on the caller discipline at gnet's Put sites: a hand-labelled table checked against the regenerated site list, not a proof about the Go code")
