"""C15: load balancing follows the selected policy."""
import tops
from props.c20 import OVERLAY
from engine import EngineHandover


class HandoverSmall(EngineHandover):
    """the last clause of C15 (assigned loop = loop of the callbacks): hand-over replay of a few real multi-loop lives"""
    ncases = (12, 200)


class LBC(tops.Component):
    name = "lb"
    model = "lb"
    overlay = OVERLAY

    def gen_args(self, tier, seed):
        n = 3000 if tier == "quick" else 60000
        return [["-seed", str(seed), "-cases", str(n)]]

    def nontrivial(self, cr):
        return len(cr.ops) > 6


def main(tier, replay):
    return tops.run("C15", [LBC(), HandoverSmall()], tier,
                    level_text="theorems about a model of the three next() functions for every number of loops, every count vector and every address (Props/C15.lean); tie: T-ops correspondence on the real load_balancer.go + policy oracle. The clause 'the assigned loop runs all callbacks' is decided by the reactor trace checks (C04/C05)",
                    assumptions=["CRC-32 implemented bitwise in Lean (validated against hash/crc32 by the correspondence)", "int is 64 bit, so int(uint32) is never negative"],
                    replay=replay)
