"""C10: elastic buffers (ring + linked list) behave as one FIFO byte queue."""
import re
import tops


class ElasticC(tops.Component):
    name = "elastic"
    model = "elastic"
    overlay = {"pkg/buffer/elastic/zz_verif.go": "elastic/zz_verif.go",
               "pkg/pool/ringbuffer/zz_verif.go": "ringbuffer/zz_verif.go"}

    def gen_args(self, tier, seed):
        n = 4000 if tier == "quick" else 60000
        return [["-seed", str(seed), "-cases", str(n)]]

    def nontrivial(self, cr):
        t = "\n".join(cr.impl)
        # mixed buffer: data in ring and list at the same time; ring wrapper: ring returned to the pool and re-obtained
        return bool(re.search(r"rbuf=[1-9]\d* llen=[1-9]", t)) or (" alloc=0" in t and " alloc=1" in t)


def main(tier, replay):
    return tops.run("C10", [ElasticC()], tier,
                    level_text="refinement of elastic.RingBuffer and elastic.Buffer to one FIFO list (Props/C10.lean), reusing the C09/C11 refinement lemmas; tie: T-ops correspondence + reference-FIFO oracle on the real code",
                    assumptions=["ring-buffer pool observed through one P with GC off: a Put ring is the next Get (sync.Pool private slot)", "C09 and C11 models"],
                    replay=replay)
