"""C03: asynchronous requests run exactly once: no lost wake-up of a loop."""
import os
import tops, vlib
from engine import EngineClient
from props.c13 import instrument, QUEUE_FUNCS

POLLER_FUNCS = "atomic.CompareAndSwapInt32,atomic.StoreInt32,unix.Write,unix.Read,"


class WakeC(tops.Component):
    name = "wake"
    model = "wake"
    poller = "pkg/netpoll/poller_epoll_default.go"
    hook = "hook:unix.EpollWait"

    def __init__(self):
        self.overlay = {"pkg/verifsched/vsched.go": "vsched/vsched.go",
                        "pkg/queue/zz_verif.go": "queue/zz_verif.go",
                        "pkg/netpoll/zz_verif.go": "netpoll/zz_verif.go"}

    def prepare(self):
        p = vlib.run(["go", "build", "-o", os.path.join(vlib.BIN, "instr"), "./cmd/instr"], cwd=os.path.join(vlib.VERIF, "tools"), env=vlib.GOENV)
        if p.returncode != 0:
            return "cannot build the instrumenter: " + p.stderr[-400:]
        for rel, funcs in (("pkg/queue/lock_free_queue.go", QUEUE_FUNCS), (self.poller, POLLER_FUNCS + self.hook)):
            out, err = instrument(rel, funcs)
            if err:
                return err
            self.overlay[rel] = out
        return None

    def gen_args(self, tier, seed):
        if tier == "quick":
            return [["-seed", str(seed), "-cases", "250", "-exhaustive", "0"], ["-seed", str(seed), "-cases", "0", "-exhaustive", "2400"]]
        return [["-seed", str(seed), "-cases", "4000", "-exhaustive", "0"], ["-seed", str(seed), "-cases", "0", "-exhaustive", "30000"]]

    def nontrivial(self, cr):
        tids = [o.split()[1] for o in cr.ops if o.startswith("step")]
        switches = sum(1 for a, b in zip(tids, tids[1:]) if a != b)
        return switches >= 3 and any("exec:" in l for l in cr.impl)


class WakeOpt(WakeC):
    tags = ("verif", "poll_opt")
    poller = "pkg/netpoll/poller_epoll_ultimate.go"
    hook = "hook:epollWait"
    suffix = "-opt"


def main(tier, replay):
    return tops.run("C03", [WakeC(), WakeOpt(), EngineClient()], tier,
                    level_text="invariant proof on a small-step model of Trigger/Polling over the full-granularity queue model of C13 (Props/C03.lean): no lost wake-up (queued task => a wake-up is outstanding; blocked loop with nobody in flight => queues empty), every dequeued task executed exactly once in queue order, never stuck; liveness under fairness is partial (absence of stuck states is proved, fairness of the Go scheduler is assumed). Tie: T-sched on both poller files and the queue, instrumented at every atomic operation and eventfd/epoll call, real kernel eventfd/epoll objects",
                    assumptions=["every write to an eventfd registered with EPOLLET produces a new edge; edges coalesce; epoll_wait consumes the edge (checked on this kernel in the design spike)",
                                 "sync/atomic is sequentially consistent", "the Go scheduler is fair (for 'is carried out')", "eventfd counter overflow (EAGAIN after 2^64-2 writes) is not modelled"],
                    replay=replay,
                    partial_note="liveness ('is carried out') is proved only as absence of stuck states; the mapping of API calls to Trigger is checked by the reactor trace checks")
