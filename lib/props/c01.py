"""C01: inbound stream integrity (reactor model + trace acceptance)."""
import tops
from engine import EngineClient
from reactor import components
from props.c09 import Ring
from props.c10 import ElasticC


def main(tier, replay):
    return tops.run("C01", components(['stream']) + [EngineClient(), ElasticC(), Ring()], tier,
                    level_text="Props/C01.lean: consumed ++ inbound ++ buffer = delivered is an invariant of every accepted round of the reactor model. The model is a trace acceptor over abstract FIFO buffers (justified by the C09/C10/C11 refinements); it is tied to the code by trace acceptance: one REAL event loop on real sockets runs step by step, every system call goes through a logging / fault-injecting shim, and every round's log must be accepted by the model (kernel results and handler actions are inputs, system-call requests, callbacks and method results are predictions). Independent oracles check the property end to end on the same runs. The buffer refinements the abstraction rests on (elastic.RingBuffer and ring.Buffer are FIFO lists, C10/C09) are restated as obligations and their op-sequence correspondence runs here too",
                    assumptions=["Linux socket and epoll semantics (real kernel in the runs, inputs of the model)",
                                 "instrumentation (selector renaming to the shim, entry logging) does not change behaviour",
                                 "the Go scheduler and multi-loop timing are outside the model (C03/C13 cover the hand-over protocol)"],
                    replay=replay,
                    partial_note="proved on the model; the runtime (kernel, scheduler) is exercised, not proved")
