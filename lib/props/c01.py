"""C01: inbound stream integrity under any segmentation and consumption pattern."""
import tops
from reactor import components


def main(tier, replay):
    return tops.run("C01", components(["stream", "udp", "fault"]), tier,
                    level_text="reactor model (Props/C01.lean) + trace acceptance on a real event loop",
                    assumptions=["Linux stream sockets deliver bytes in order; epoll semantics"],
                    replay=replay)
