"""C01: inbound stream integrity under any segmentation and consumption pattern."""
import tops
from reactor import Reactor, ReactorOpt


def main(tier, replay):
    return tops.run("C01", [Reactor(), ReactorOpt()], tier,
                    level_text="reactor model (Props/C01.lean) + trace acceptance on a real event loop",
                    assumptions=["Linux stream sockets deliver bytes in order; epoll semantics"],
                    replay=replay)
