"""C05: event-loop confinement and freedom from data races (partial)."""
import tops
from engine import EngineRace


class SharedRace(tops.Component):
    """the shared pools, the task queue and the elastic buffers used by several goroutines the way several event loops
    use them, under the race detector (run-time support of the audit theorem shared_state_atomic)"""
    name = "sharedrace"
    model = "engine"      # unused: no model side
    with_model = False
    race = True
    overlay = None
    ncases = (4, 24)

    def gen_args(self, tier, seed):
        n = self.ncases[0] if tier == "quick" else self.ncases[1]
        return [["-seed", str(seed), "-cases", str(n)]]

    def extra_env(self):
        return {"VERIF_CASE_MARK": "1", "GORACE": "halt_on_error=0 exitcode=0"}

    def nontrivial(self, cr):
        return any(l.strip() == "done" for l in cr.impl)


def main(tier, replay):
    return tops.run("C05", [EngineRace(), SharedRace()], tier,
                    level_text="partial: (a) a Lean-checked audit (Props/C05.lean, `decide +kernel`) of the field-access table regenerated from the source by tools/cmd/access: every access made by the concurrency-safe API off the loop is atomic, reads a field that is never written after publication, is covered by a written justification, or is a recorded finding; (b) confinement is checked in the real engine lives (one goroutine per connection, no overlapping callbacks per loop). Not a proof in the Go memory model - no executable model can express that. Support: the engine lives run under the race detector while foreign goroutines hammer the concurrency-safe API from OnBoot / OnOpen on; every race report is an oracle failure; the shared pools, the task queue and the elastic buffers are driven by several goroutines under the race detector as well (component sharedrace)",
                    assumptions=["the access table abstracts the code (static calls, no aliasing analysis)", "happens-before through the task queue is argued from C13, not proved in the Go memory model"],
                    replay=replay,
                    partial_note="race freedom is audited (table) and tested (race detector), not proved; two race families are known findings")
