"""C05: event-loop confinement and freedom from data races (partial)."""
import tops
from engine import EngineRace


def main(tier, replay):
    return tops.run("C05", [EngineRace()], tier,
                    level_text="partial: (a) a Lean-checked audit (Props/C05.lean, `decide +kernel`) of the field-access table regenerated from the source by tools/cmd/access: every access made by the concurrency-safe API off the loop is atomic, reads a field that is never written after publication, is covered by a written justification, or is a recorded finding; (b) confinement is checked in the real engine lives (one goroutine per connection, no overlapping callbacks per loop). Not a proof in the Go memory model - no executable model can express that. Support: the engine lives run under the race detector while foreign goroutines hammer the concurrency-safe API from OnBoot / OnOpen on; every race report is an oracle failure",
                    assumptions=["the access table abstracts the code (static calls, no aliasing analysis)", "happens-before through the task queue is argued from C13, not proved in the Go memory model"],
                    replay=replay,
                    partial_note="race freedom is audited (table) and tested (race detector), not proved; two race families are known findings")
