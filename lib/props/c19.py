"""C19 (engine model + acceptance of real engine lives)."""
import tops
from engine import EngineC, EngineHandover, EngineHammer


class FaultRegistration(EngineHandover):
    """lives of the instrumented build, in which one registration meets a failing dup(2)"""
    ncases = (12, 200)


def main(tier, replay):
    return tops.run("C19", [EngineC(), FaultRegistration(), EngineHammer()], tier,
                    level_text="Lean model of the engine life cycle: control API decision table and a small-step system of the goroutines of a shutdown (Props/C19.lean); tie: the real engine is run through its public API (every shutdown source, 1..4 loops, reactor and SO_REUSEPORT mode, ticker on/off, unix/tcp, Register racing with Stop) and the coarse trace of every life must be accepted by the model's trace acceptor; oracles check completeness, finality and the API table",
                    assumptions=["wall-clock bounds are outside Lean (a 10 s deadline in the runs)", "the trace is coarse: callbacks, API probe results, Run's return"],
                    replay=replay,
                    partial_note="proved on the model; boundedness only as absence of stuck states plus a deadline in the runs")
