"""C13: the lock-free task queue is a linearizable FIFO queue."""
import os, re
import tops, vlib

INSTR_DIR = os.path.join(vlib.BIN, "instrumented")
QUEUE_FUNCS = "atomic.LoadPointer,atomic.CompareAndSwapPointer,atomic.AddInt32,atomic.LoadInt32"


def instrument(rel, funcs, pkg=None, src=None, tag=""):
    """instruments /repo/<rel> (or the already instrumented file `src`) into
    .bin/instrumented/<flattened name><tag>; returns (path, error)"""
    os.makedirs(INSTR_DIR, exist_ok=True)
    out = os.path.join(INSTR_DIR, tag + rel.replace("/", "__"))
    tmp = out + ".tmp"
    cmd = [os.path.join(vlib.BIN, "instr"), src or os.path.join(vlib.REPO, rel), tmp, funcs]
    if pkg:
        cmd.append(pkg)
    p = vlib.run(cmd, env=vlib.GOENV)
    if p.returncode != 0:
        return None, "instrumenter failed on %s: %s" % (rel, p.stderr.strip()[-400:])
    vlib.write_if_changed(out, open(tmp).read())
    os.remove(tmp)
    return out, None


class MsqC(tops.Component):
    name = "msq"
    model = "msq"

    def __init__(self):
        self.overlay = {"pkg/verifsched/vsched.go": "vsched/vsched.go",
                        "pkg/queue/zz_verif.go": "queue/zz_verif.go"}

    def prepare(self):
        p = vlib.run(["go", "build", "-o", os.path.join(vlib.BIN, "instr"), "./cmd/instr"], cwd=os.path.join(vlib.VERIF, "tools"), env=vlib.GOENV)
        if p.returncode != 0:
            return "cannot build the instrumenter: " + p.stderr[-400:]
        out, err = instrument("pkg/queue/lock_free_queue.go", QUEUE_FUNCS)
        if err:
            return err
        self.overlay["pkg/queue/lock_free_queue.go"] = out
        return None

    def gen_args(self, tier, seed):
        if tier == "quick":
            return [["-seed", str(seed), "-cases", "400", "-exhaustive", "1600"]]
        return [["-seed", str(seed), "-cases", "6000", "-exhaustive", "40000"]]

    def nontrivial(self, cr):
        # at least two threads interleaved inside operations (a step of one thread between two steps of another)
        tids = [o.split()[1] for o in cr.ops if o.startswith("step")]
        switches = sum(1 for a, b in zip(tids, tids[1:]) if a != b)
        return switches >= 2


def main(tier, replay):
    return tops.run("C13", [MsqC()], tier,
                    level_text="invariant + forward-simulation proof on a small-step model of the Michael-Scott queue (one transition per atomic operation, any number of threads, Props/C13.lean): linearizability to an atomic FIFO queue with explicit linearisation points, empty answers justified, Length exact at quiescence; tie: T-sched - the real lock_free_queue.go instrumented at every atomic operation runs the same schedules (random, PCT-style, exhaustive with a preemption bound) and must produce the same state dumps and return values; oracle: linearizability search on the recorded histories",
                    assumptions=["sync/atomic operations are sequentially consistent", "the garbage collector never frees a reachable node (no ABA)",
                                 "instrumentation (selector renaming atomic.X -> verifsched.X) does not change behaviour other than adding scheduling points"],
                    replay=replay)
