"""C20: power-of-two and index arithmetic is exact over the whole integer range."""
import tops

OVERLAY = {"pkg/pool/byteslice/zz_verif.go": "byteslice/zz_verif.go",
           "pkg/pool/ringbuffer/zz_verif.go": "ringbuffer/zz_verif.go",
           "zz_verif_export.go": "gnet/zz_verif_export.go",
           "zz_verif_drain.go": "gnet/zz_verif_drain.go",
           "zz_verif_matrix_gc.go": "gnet/zz_verif_matrix_gc.go",
           "zz_verif_matrix_nogc.go": "gnet/zz_verif_matrix_nogc.go"}


class Arith(tops.Component):
    name = "arith"
    model = "arith"
    overlay = OVERLAY

    def gen_args(self, tier, seed):
        n = 3000 if tier == "quick" else 100000
        return [["-seed", str(seed), "-cases", str(n)]]

    def nontrivial(self, cr):
        return True

    def finding_id(self, cr):
        ws = cr.ops[-1].split()
        if ws[0] == "closest" and cr.impl and cr.impl[-1] == "r=panic":
            n = int(ws[1])
            if 2 ** 62 < n < 3 * 2 ** 61:
                return "closest-panics-above-2^62"
        return None


def main(tier, replay):
    return tops.run("C20", [Arith()], tier,
                    level_text="theorems over all 64-bit (32-bit) values about the Lean definitions regenerated from math.go, byteslice.go, ringbuffer.go by tools/cmd/gotolean (Props/C20.lean); GFD pack/unpack round trip on a hand-written model with offsets from the source; tie: regeneration on every run + differential run of the generated definitions against the Go functions",
                    assumptions=["Go int is 64-bit two's complement; bits.Len = bit length", "translator gotolean is faithful on the supported subset (differentially tested every run)"],
                    replay=replay)
