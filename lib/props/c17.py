"""C17: socket addresses survive conversion and are reported truthfully."""
import tops
from props.c20 import OVERLAY
from engine import EngineZone


class SockaddrC(tops.Component):
    name = "sockaddr"
    model = "sockaddr"
    overlay = dict(OVERLAY, **{"pkg/socket/zz_verif.go": "socket/zz_verif.go"})

    def gen_args(self, tier, seed):
        n = 3000 if tier == "quick" else 60000
        return [["-seed", str(seed), "-cases", str(n)]]

    def nontrivial(self, cr):
        return any("sa=inet6" in l and "zone=-" not in l for l in cr.impl)


def main(tier, replay):
    return tops.run("C17", [SockaddrC(), EngineZone()], tier,
                    level_text="proof for the conversion half: round-trip and totality theorems on a model of sockaddr.go with the interface table as a parameter (Props/C17.lean); partial for the runtime half (RemoteAddr/LocalAddr truthful for the whole life of a connection under churn), which is checked in real client lives against a link-local IPv6 peer (addresses of a live connection must not change while other connections close and pooled memory is reused) and in the engine lives of C06/C19. Tie: T-ops correspondence on the real conversion functions with this host's interface table + round-trip oracle",
                    assumptions=["net.IP.To4/To16/Equal and the interface table are modelled, not verified", "numeric zones that coincide with an existing interface index come back as that interface's name (same zone)"],
                    replay=replay,
                    partial_note="runtime half (addresses reported by live connections) is checked on traces, not proved")
