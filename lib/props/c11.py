"""C11: linkedlist.Buffer behaves as a FIFO byte queue of copied segments."""
import re
import tops


class LinkedList(tops.Component):
    name = "linkedlist"
    model = "linkedlist"

    def gen_args(self, tier, seed):
        n = 4000 if tier == "quick" else 60000
        return [["-seed", str(seed), "-cases", str(n)]]

    def nontrivial(self, cr):
        # at least three segments at some point and a read/discard/writeto that ended inside a segment
        lens = [int(x) for x in re.findall(r" len=(-?\d+)", "\n".join(cr.impl))]
        return bool(lens) and max(lens) >= 3


def main(tier, replay):
    return tops.run("C11", [LinkedList()], tier,
                    level_text="refinement of every linkedlist.Buffer operation to a FIFO list with segment structure, for all op sequences (Props/C11.lean); tie: T-ops correspondence + reference-FIFO and aliasing oracle on the real code",
                    assumptions=["Go slices as immutable lists with an ownership tag per segment", "byte-slice pool returns a slice of the requested length (C12)"],
                    replay=replay)
