"""C09: ring.Buffer behaves as an unbounded FIFO byte queue."""
import re
import tops


class Ring(tops.Component):
    name = "ring"
    model = "ring"

    def gen_args(self, tier, seed):
        n = 4000 if tier == "quick" else 60000
        return [["-seed", str(seed), "-cases", str(n)]]

    def nontrivial(self, cr):
        # reached a wrapped, full or grown state
        caps = set(re.findall(r"cap=(\d+)", "\n".join(cr.impl)))
        return len(caps) > 1 or any("full=1" in l or ("tail=" in l and "tail=-" not in l) for l in cr.impl)


def main(tier, replay):
    return tops.run("C09", [Ring()], tier, lean_targets=[],
                    level_text="refinement of every ring.Buffer operation to a FIFO list, for all states satisfying the representation invariant and all op sequences (Lean theorems in Props/C09.lean); tie: T-ops correspondence + reference-FIFO oracle on the real ring.Buffer",
                    assumptions=["Go slices/copy/append as modelled by Gnet.blit; pool memory content arbitrary (model uses a filler)",
                                 "buffer sizes below 2^62 (no int overflow)"],
                    replay=replay)
