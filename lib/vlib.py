"""Shared machinery of the gnet verification checks (see DESIGN.md sections 2, 4, 5).

Every check:  regenerate Gen/*.lean from /repo  ->  lake build the property's proof modules
->  audit axioms  ->  build the Go driver against /repo  ->  run corpus + generated cases on
implementation and model  ->  property oracle on the implementation  ->  verdict + evidence.
"""
import fcntl, glob, hashlib, json, os, random, re, shutil, subprocess, sys, tempfile, time

VERIF = os.path.dirname(os.path.dirname(os.path.abspath(__file__)))
REPO = os.environ.get("VERIF_REPO", "/repo")
LEAN = os.path.join(VERIF, "lean")
BIN = os.path.join(VERIF, ".bin")
MODEL = os.path.join(LEAN, ".lake", "build", "bin", "gnetmodel")
ALLOWED_AXIOMS = {"propext", "Classical.choice", "Quot.sound"}
FORBIDDEN = re.compile(r"\bsorry\b|\badmit\b|^\s*axiom\s|native_decide|bv_decide|implemented_by|\bunsafe\s|maxHeartbeats\s+0")

GOENV = dict(os.environ, GOFLAGS="-mod=mod", GOPROXY="off", GOSUMDB="off", GOTOOLCHAIN="local",
             GOMAXPROCS=os.environ.get("GOMAXPROCS", "16"))


def log(*a):
    print(*a, file=sys.stderr, flush=True)


def run(cmd, cwd=None, env=None, inp=None, timeout=None, check=False):
    p = subprocess.run(cmd, cwd=cwd, env=env, input=inp, capture_output=True, text=True, errors="replace", timeout=timeout)
    if check and p.returncode != 0:
        raise RuntimeError("command failed: %s\n%s\n%s" % (cmd, p.stdout[-4000:], p.stderr[-4000:]))
    return p


class Lock:
    """Serialises everything that writes into lean/ (generated files, lake build)."""

    def __enter__(self):
        self.f = open(os.path.join(VERIF, ".lock"), "w")
        fcntl.flock(self.f, fcntl.LOCK_EX)
        return self

    def __exit__(self, *a):
        fcntl.flock(self.f, fcntl.LOCK_UN)
        self.f.close()


# ------------------------------------------------------------------ tools, Gen, Lean

def build_tools():
    os.makedirs(BIN, exist_ok=True)
    for t in ("facts", "gotolean", "access"):
        p = run(["go", "build", "-o", os.path.join(BIN, t), "./cmd/" + t], cwd=os.path.join(VERIF, "tools"), env=GOENV)
        if p.returncode != 0:
            raise RuntimeError("cannot build tool %s: %s" % (t, p.stderr[-2000:]))


def write_if_changed(path, content):
    try:
        if open(path).read() == content:
            return False
    except FileNotFoundError:
        pass
    with open(path, "w") as f:
        f.write(content)
    return True


def regenerate():
    """Regenerates lean/Gnet/Gen/*.lean from the current /repo. Returns list of tie errors."""
    errs = []
    gen = os.path.join(LEAN, "Gnet", "Gen")
    os.makedirs(gen, exist_ok=True)
    for tool, out in (("facts", "Facts.lean"), ("gotolean", "Arith.lean"), ("access", "Access.lean")):
        tmp = os.path.join(gen, "." + out + ".tmp")
        p = run([os.path.join(BIN, tool), REPO, tmp], env=GOENV)
        if p.returncode != 0:
            errs.append("translator %s failed on the current source: %s" % (tool, p.stderr.strip()[-600:]))
            if os.path.exists(tmp):
                os.remove(tmp)
            continue
        write_if_changed(os.path.join(gen, out), open(tmp).read())
        os.remove(tmp)
    return errs


def lake_build(targets):
    """Builds targets; returns (ok, error text)."""
    p = run(["lake", "build"] + targets, cwd=LEAN)
    if p.returncode == 0:
        return True, ""
    lines = [l for l in (p.stdout + p.stderr).splitlines() if not l.startswith("trace:")]
    return False, "\n".join(lines)[-6000:]


def theorem_names(prop):
    path = os.path.join(LEAN, "Gnet", "Props", prop + ".lean")
    src = open(path).read()
    # strip comments
    src_nc = re.sub(r"/-.*?-/", "", src, flags=re.S)
    src_nc = re.sub(r"--.*", "", src_nc)
    return re.findall(r"^\s*theorem\s+([A-Za-z0-9_'.]+)", src_nc, flags=re.M)


def audit(prop):
    """#print axioms for every theorem of Props/<prop>.lean. Returns (results, errors):
    results = {theorem: [axioms]}"""
    names = theorem_names(prop)
    d = os.path.join(LEAN, "Gnet", "Audit")
    os.makedirs(d, exist_ok=True)
    f = os.path.join(d, prop + ".lean")
    body = "import Gnet.Props.%s\n" % prop + "".join("#print axioms Gnet.Props.%s.%s\n" % (prop, n) for n in names)
    write_if_changed(f, body)
    p = run(["lake", "env", "lean", f], cwd=LEAN)
    out = p.stdout + p.stderr
    res, errs = {}, []
    for m in re.finditer(r"'Gnet\.Props\.%s\.([^']+)' (does not depend on any axioms|depends on axioms: \[([^\]]*)\])" % prop, out, flags=re.S):
        axs = [a.strip() for a in (m.group(3) or "").replace("\n", " ").split(",") if a.strip()]
        res[m.group(1)] = axs
    for n in names:
        if n not in res:
            errs.append("theorem %s: no axiom report (%s)" % (n, out.strip()[-300:]))
        else:
            bad = [a for a in res[n] if a not in ALLOWED_AXIOMS]
            if bad:
                errs.append("theorem %s depends on unaccepted axioms %s" % (n, bad))
    return res, errs


def forbidden_scan():
    hits = []
    for path in glob.glob(os.path.join(LEAN, "**", "*.lean"), recursive=True):
        if "/.lake/" in path:
            continue
        src = open(path).read()
        src = re.sub(r"/-.*?-/", lambda m: "\n" * m.group(0).count("\n"), src, flags=re.S)
        for i, line in enumerate(src.splitlines(), 1):
            line = re.sub(r"--.*", "", line)
            line = re.sub(r'"[^"]*"', '""', line)
            if FORBIDDEN.search(line):
                hits.append("%s:%d: %s" % (os.path.relpath(path, VERIF), i, line.strip()[:120]))
    return hits


def enclosing_decl(errline):
    """'theorem <name>: ' for a Lean error 'Gnet/X.lean:<line>:<col>: ...' (the last declaration that starts at or before
    that line), or ''."""
    m = re.match(r"(\S+\.lean):(\d+):", errline)
    if not m:
        return ""
    try:
        lines = open(os.path.join(LEAN, m.group(1))).read().splitlines()
    except OSError:
        return ""
    for i in range(min(int(m.group(2)), len(lines)) - 1, -1, -1):
        d = re.match(r"\s*(?:private\s+|protected\s+)?(theorem|lemma|example|def|instance)\s*([A-Za-z0-9_'.]*)", lines[i])
        if d:
            return "%s %s: " % (d.group(1), d.group(2)) if d.group(2) else d.group(1) + ": "
    return ""


def lean_stage(prop, targets, tier):
    """Regenerate, build model exe and the property's proof modules, audit.
    Returns dict(model_ok, proof_ok, broken=[...], theorems={...})."""
    st = dict(model_ok=True, proof_ok=True, broken=[], theorems={}, leanchecker=None)
    with Lock():
        build_tools()
        st["broken"] += regenerate()
        ok, err = lake_build(["gnetmodel"])
        if not ok:
            st["model_ok"] = False
            st["broken"].append("model executable does not build: " + err[-1500:])
        ok, err = lake_build(["Gnet.Props." + prop] + targets)
        if not ok:
            st["proof_ok"] = False
            bad = re.findall(r"error: (\S+\.lean:\d+:\d+: .*)", err)
            bad = [enclosing_decl(b) + b for b in bad]
            st["broken"].append("proof obligations of Props/%s no longer check: %s" % (prop, "; ".join(bad[:6]) or err[-1500:]))
        else:
            res, errs = audit(prop)
            st["theorems"] = res
            if errs:
                st["proof_ok"] = False
                st["broken"] += errs
        hits = forbidden_scan()
        if hits:
            st["proof_ok"] = False
            st["broken"].append("forbidden constructs in Lean sources: " + "; ".join(hits[:5]))
        if tier == "thorough" and st["proof_ok"]:
            p = run(["lake", "env", "leanchecker", "Gnet.Props." + prop], cwd=LEAN)
            st["leanchecker"] = (p.returncode == 0)
            if p.returncode != 0:
                st["proof_ok"] = False
                st["broken"].append("leanchecker rejects Gnet.Props.%s: %s" % (prop, (p.stdout + p.stderr)[-500:]))
    if st["broken"] and not st["proof_ok"] is False and st["model_ok"]:
        # a translator failure with everything else building still breaks the tie
        st["proof_ok"] = False
    return st


# ------------------------------------------------------------------ Go drivers

def build_driver(name, tags=("verif",), overlay=None, race=False, suffix=""):
    """Builds harness/drivers/<name> against /repo (replace => /repo; overlay files are added
    to gnet packages through `go build -overlay`, nothing is written into /repo)."""
    h = os.path.join(VERIF, "harness")
    shutil.copyfile(os.path.join(REPO, "go.sum"), os.path.join(h, "go.sum"))
    out = os.path.join(BIN, "drv-" + name + ("-" + "-".join(t for t in tags if t != "verif") if len(tags) > 1 else "") + suffix)
    cmd = ["go", "build", "-tags", ",".join(tags), "-o", out]
    if REPO != "/repo":
        # a scratch copy of the repository (VERIF_REPO; used for runs against seeded changes while /repo is busy):
        # the same module file with the replace directive pointing there
        mod = open(os.path.join(h, "go.mod")).read().replace("=> /repo", "=> " + REPO)
        with open(os.path.join(h, "go.scratch.mod"), "w") as f:
            f.write(mod)
        shutil.copyfile(os.path.join(REPO, "go.sum"), os.path.join(h, "go.scratch.sum"))
        cmd.append("-modfile=go.scratch.mod")
    if race:
        cmd.append("-race")
    if overlay:
        ov = {"Replace": {os.path.join(REPO, dst): (src if os.path.isabs(src) else os.path.join(VERIF, "harness", "overlay", src)) for dst, src in overlay.items()}}
        ovf = os.path.join(BIN, "overlay-%s%s.json" % (name, suffix))
        with open(ovf, "w") as f:
            json.dump(ov, f)
        cmd += ["-overlay", ovf]
    cmd.append("./drivers/" + name)
    p = run(cmd, cwd=h, env=GOENV)
    if p.returncode != 0:
        return None, p.stderr[-3000:]
    return out, ""


# ------------------------------------------------------------------ op streams

def split_cases(text):
    """-> list of (case id, [op lines])"""
    cases, cur = [], None
    for line in text.splitlines():
        line = line.strip()
        if not line:
            continue
        if line.startswith("case "):
            cur = (line.split()[1], [])
            cases.append(cur)
        elif cur is not None:
            cur[1].append(line)
    return cases


def join_cases(cases):
    out = []
    for cid, ops in cases:
        out.append("case %s" % cid)
        out += ops
    return "\n".join(out) + "\n"


def exec_impl(driver, ops_text, extra_env=None, timeout=600):
    with tempfile.NamedTemporaryFile("r", suffix=".oracle", delete=False) as of:
        oname = of.name
    try:
        env = dict(GOENV, VERIF_ORACLE_OUT=oname)
        if extra_env:
            env.update(extra_env)
        try:
            p = subprocess.run([driver, "-mode", "exec"], input=ops_text, capture_output=True, text=True, errors="replace", env=env, timeout=timeout)
        except subprocess.TimeoutExpired as e:
            out = e.stdout or ""
            if isinstance(out, bytes):
                out = out.decode("utf-8", "replace")
            oracle = open(oname).read().splitlines()
            return out.splitlines(), oracle, "the driver did not finish within %d s: the implementation hangs on this input" % timeout
        oracle = open(oname).read().splitlines()
        oracle += race_reports(p.stderr)
        crashed = p.returncode not in (0, 3)
        return p.stdout.splitlines(), oracle, (p.stderr[-2000:] if crashed else "")
    finally:
        os.remove(oname)


def race_reports(stderr):
    """turns the Go race detector's reports into oracle failures of the case they occurred in
    (the driver prints @@CASE markers when VERIF_CASE_MARK=1)"""
    if "DATA RACE" not in stderr:
        return []
    out, cur = [], "?"
    lines = stderr.splitlines()
    i = 0
    while i < len(lines):
        l = lines[i]
        if l.startswith("@@CASE "):
            cur = l.split()[1]
        elif "WARNING: DATA RACE" in l:
            j = i + 1
            parts = []
            while j < len(lines) and not lines[j].startswith("=================="):
                t = lines[j].strip()
                m = re.match(r"^(Read|Write|Previous read|Previous write) at", t)
                if m:
                    frames = []
                    k = j + 1
                    while k < len(lines) and lines[k].startswith("  ") and len(frames) < 3:
                        f = lines[k].strip()
                        if not f.startswith("/") and not f.startswith("<autogenerated>"):
                            frames.append(re.sub(r"\(\)$", "", f).replace("github.com/panjf2000/gnet/v2", "gnet"))
                        k += 1
                    parts.append("%s in %s" % (m.group(1).lower(), " <- ".join(frames)))
                j += 1
            out.append("ORACLE-FAIL case=%s op=1 C05: data race: %s" % (cur, " || ".join(parts)))
            i = j
        i += 1
    return out


def exec_model(component, ops_text, timeout=1200):
    p = subprocess.run([MODEL, component], input=ops_text, capture_output=True, text=True, errors="replace", timeout=timeout)
    if p.returncode != 0:
        raise RuntimeError("model driver failed: " + p.stderr[-1000:])
    return p.stdout.splitlines()


# Attribution of oracle messages: a driver serves several properties; a message that starts with property tags
# ("C07: ...", "C04/C06: ...") counts only in the checks of those properties, an untagged one in every check that
# runs the component. CURRENT_PROP is set by tops.run; OTHER counts what was left to the other checks.
CURRENT_PROP = [None]
OTHER = {}


def relevant(msg):
    m = re.match(r"(C\d\d(?:/C\d\d)*): ", msg)
    if not m or CURRENT_PROP[0] is None:
        return True
    if CURRENT_PROP[0] in m.group(1).split("/"):
        return True
    OTHER[m.group(1)] = OTHER.get(m.group(1), 0) + 1
    return False


class CaseResult:
    def __init__(self, cid, ops):
        self.cid, self.ops = cid, ops
        self.impl, self.model = [], []
        self.oracle = []          # oracle failure messages (with op index)
        self.first_diff = None    # index of first op where impl and model differ

    @property
    def failed(self):
        return bool(self.oracle) or self.first_diff is not None


def compare(cases, impl_lines, model_lines, oracle_lines):
    """Aligns the reply streams with the cases. Returns list of CaseResult."""
    res, pos = [], 0
    by_id = {}
    for cid, ops in cases:
        cr = CaseResult(cid, ops)
        n = len(ops) + 1
        il = impl_lines[pos:pos + n]
        ml = model_lines[pos:pos + n] if model_lines is not None else None
        pos += n
        cr.impl = il[1:]
        cr.model = ml[1:] if ml is not None else []
        if ml is not None:
            for i in range(len(ops)):
                a = cr.impl[i] if i < len(cr.impl) else "<missing>"
                b = cr.model[i] if i < len(cr.model) else "<missing>"
                if a != b:
                    cr.first_diff = i
                    break
        res.append(cr)
        by_id[cid] = cr
    for l in oracle_lines:
        m = re.match(r"ORACLE-FAIL case=(\S+) op=(\d+) (.*)", l)
        if m and m.group(1) in by_id and relevant(m.group(3)):
            by_id[m.group(1)].oracle.append((int(m.group(2)), m.group(3)))
    return res


def crash_summary(stderr_tail):
    """the line that says why the process died, and the first frame inside gnet"""
    lines = stderr_tail.splitlines()
    why = next((l.strip() for l in lines if l.startswith(("panic:", "fatal error:", "runtime: goroutine stack exceeds"))), "")
    frame = next((l.strip() for l in lines if "github.com/panjf2000/gnet/v2" in l and "(" in l), "")
    return (why + (" at " + frame if frame else "") or stderr_tail.strip()[-200:])[:300]


def _evaluate(component, cases, impl, oracle, with_model):
    """model run + comparison for cases whose implementation replies are complete"""
    text = join_cases(cases)
    # a reply may carry what the environment decided (pool hit or miss, ...) after " @@ ":
    # that part is an INPUT of the model (appended to the op), not an output to compare
    if any(" @@" in l for l in impl):
        in_lines = text.splitlines()
        out = []
        for i, l in enumerate(in_lines):
            if i < len(impl) and impl[i].endswith(" @@="):
                # the reply itself is what the model has to accept (trace acceptance)
                impl[i] = impl[i][:-4]
                out.append(l + " " + impl[i])
            elif i < len(impl) and " @@ " in impl[i]:
                rep, ann = impl[i].split(" @@ ", 1)
                impl[i] = rep
                out.append(l + " " + ann)
            else:
                out.append(l)
        text = "\n".join(out) + "\n"
    model = exec_model(component, text) if with_model else None
    return compare(cases, impl, model, oracle)


def run_cases(driver, component, cases, with_model=True, extra_env=None):
    """runs the cases on the implementation (one process) and on the model. When the implementation kills the
    process in the middle of the batch, the cases answered so far are evaluated, the crashing case is run alone
    (and gets an oracle failure: a crash on this very input), and the rest is run as a new batch."""
    res, crashes, remaining, splits = [], [], list(cases), 0
    while remaining:
        impl, oracle, crash = exec_impl(driver, join_cases(remaining), extra_env)
        if not crash or len(remaining) == 1 or splits >= 12:
            r = _evaluate(component, remaining, impl, oracle, with_model)
            if crash:
                crashes.append(crash)
                if len(remaining) == 1 and "did not finish" not in crash:
                    # a panic or a fatal error of the implementation on this very input is a failing input
                    r[0].oracle.append((max(len(r[0].impl), 1),
                                        "the implementation crashed the process on this input: " + crash_summary(crash)))
            res += r
            break
        splits += 1
        pos, done = 0, 0
        for cid, ops in remaining:
            if pos + len(ops) + 1 <= len(impl):
                pos += len(ops) + 1
                done += 1
            else:
                break
        done = min(done, len(remaining) - 1)
        if done:
            res += _evaluate(component, remaining[:done], impl[:pos], oracle, with_model)
        r1, c1 = run_cases(driver, component, remaining[done:done + 1], with_model, extra_env)
        res += r1
        crashes.append(c1 or crash)
        remaining = remaining[done + 1:]
    return res, "\n".join(c for c in crashes if c)


MINIMISE_DEADLINE = [None]   # absolute time after which no further minimisation is attempted in this run


def minimise(driver, component, ops, pred, with_model=True, extra_env=None, budget=400, seconds=60):
    """ddmin on the op list: keeps `pred(CaseResult)` true. The first op (constructor) is kept.
    Bounded by `budget` executions, `seconds` of wall time and the run-wide MINIMISE_DEADLINE."""
    t_end = time.time() + seconds
    if MINIMISE_DEADLINE[0] is not None:
        t_end = min(t_end, MINIMISE_DEADLINE[0])

    def test(cand):
        r, crash = run_cases(driver, component, [("m", cand)], with_model, extra_env)
        return pred(r[0])
    head, body = ops[:1], ops[1:]
    n, calls = 2, 0
    while len(body) >= 2 and calls < budget and time.time() < t_end:
        chunk = max(1, len(body) // n)
        reduced = False
        for i in range(0, len(body), chunk):
            cand = body[:i] + body[i + chunk:]
            calls += 1
            if time.time() >= t_end:
                break
            if test(head + cand):
                body, n, reduced = cand, max(n - 1, 2), True
                break
        if not reduced:
            if chunk == 1:
                break
            n = min(len(body), n * 2)
    if len(body) == 1 and calls < budget and time.time() < t_end and test(head):
        body = []
    return head + body


# ------------------------------------------------------------------ findings, verdict, evidence

def load_findings(prop):
    path = os.path.join(VERIF, "known_findings.json")
    if not os.path.exists(path):
        return []
    return [f for f in json.load(open(path)) if f.get("property") == prop and f.get("kind") == "finding"]


def seed():
    try:
        return int(os.environ.get("VERIF_SEED", "1"))
    except ValueError:
        return 1


def write_replay(prop, payload):
    d = os.path.join(VERIF, "replays")
    os.makedirs(d, exist_ok=True)
    h = hashlib.sha1(json.dumps(payload, sort_keys=True).encode()).hexdigest()[:12]
    path = os.path.join(d, "%s-%s.json" % (prop, h))
    with open(path, "w") as f:
        json.dump(payload, f, indent=1)
    return path


def write_evidence(prop, tier, level, coverage, assumptions, wall, violations):
    # VERIF_EVIDENCE_DIR: runs against a deliberately modified /repo (seeded changes) must not overwrite the evidence
    d = os.environ.get("VERIF_EVIDENCE_DIR") or os.path.join(VERIF, "evidence")
    os.makedirs(d, exist_ok=True)
    ev = dict(property_id=prop, tier=tier, seed=seed(), level=level, coverage=coverage,
              assumptions=assumptions, wall_s=round(wall, 2), violations=violations)
    with open(os.path.join(d, prop + ".json"), "w") as f:
        json.dump(ev, f, indent=1)


TRUSTED_BASE = [
    "Lean 4.33.0 kernel (leanchecker re-check in the thorough tier)",
    "axioms accepted in property theorems: propext, Classical.choice, Quot.sound",
    "translators tools/cmd/gotolean and tools/cmd/facts (Go int = BitVec 64 two's complement; bits.Len as Gnet.bitLen)",
    "correspondence drivers under harness/drivers and the comparison in lib/vlib.py",
]
