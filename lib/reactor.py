"""The reactor component shared by C01, C02, C04, C07, C08, C18 (DESIGN.md section 6, reactor)."""
import os
import tops, vlib
from props.c13 import instrument
from props.c20 import OVERLAY

VSYS = "github.com/panjf2000/gnet/v2/pkg/verifsys"

PLAN = [
    ("eventloop_unix.go", "unix.Read,unix.Write,unix.Close,unix.Recvfrom,io.Writev,socket.Dup,"
     # the last value of an entry, verifsys.Ptr(conn), is the identity of the connection object: the driver uses it to tell
     # the stale handle of a closed connection from a newer connection that got the same descriptor number, and strips it
     "entry:register0:c.fd;verifsys.Ptr(c),entry:open:c.fd;verifsys.Ptr(c),entry:read:c.fd;verifsys.Ptr(c),entry:write:c.fd;verifsys.Ptr(c),"
     "entry:close:c.fd;err == nil;verifsys.Ptr(c),"
     "entry:wake:c.fd;verifsys.Ptr(c),entry:read0:a.(*conn).fd;verifsys.Ptr(a),entry:write0:a.(*conn).fd;verifsys.Ptr(a),entry:readUDP:fd,entry:closeConns"),
    ("connection_unix.go", "unix.Write,unix.Send,unix.Sendto,io.Writev,socket.Dup,entry:asyncWrite:c.fd;verifsys.Ptr(c),entry:asyncWritev:c.fd;verifsys.Ptr(c)"),
    ("connection_linux.go", "entry:processIO:c.fd;ev;verifsys.Ptr(c)"),
    ("acceptor_unix.go", "socket.Accept,unix.Close,entry:accept:fd,entry:accept0:fd"),
]


class Reactor(tops.Component):
    name = "reactor"
    model = "reactor"
    with_model = True
    poller = "pkg/netpoll/poller_epoll_default.go"
    hook_wait = "hook:unix.EpollWait"
    hook_ctl = "hookctl:unix.EpollCtl"
    kind = "stream"
    ncases = (120, 3000)

    def __init__(self):
        self.overlay = dict(OVERLAY)
        self.overlay.update({"pkg/verifsched/vsched.go": "vsched/vsched.go",
                             "pkg/verifsys/vsys.go": "vsys/vsys.go",
                             "pkg/netpoll/zz_verif.go": "netpoll/zz_verif.go",
                             "zz_verif_reactor.go": "gnet/zz_verif_reactor.go"})

    def prepare(self):
        p = vlib.run(["go", "build", "-o", os.path.join(vlib.BIN, "instr"), "./cmd/instr"], cwd=os.path.join(vlib.VERIF, "tools"), env=vlib.GOENV)
        if p.returncode != 0:
            return "cannot build the instrumenter: " + p.stderr[-400:]
        tag = "reactor%s__" % self.suffix
        for rel, funcs in PLAN:
            out, err = instrument(rel, funcs, VSYS, tag=tag)
            if err:
                return err
            self.overlay[rel] = out
        out, err = instrument(self.poller, self.hook_wait, tag=tag + "p1__")
        if err:
            return err
        out, err = instrument(self.poller, self.hook_ctl, VSYS, src=out, tag=tag)
        if err:
            return err
        self.overlay[self.poller] = out
        return None

    def gen_args(self, tier, seed):
        n = self.ncases[0] if tier == "quick" else self.ncases[1]
        return [["-seed", str(seed), "-cases", str(n), "-kind", self.kind]]

    def nontrivial(self, cr):
        t = "\\n".join(cr.impl)
        return "cb OnTraffic" in t and ("sys write" in t or "sys writev" in t)


class ReactorOpt(Reactor):
    tags = ("verif", "poll_opt")
    poller = "pkg/netpoll/poller_epoll_ultimate.go"
    hook_wait = "hook:epollWait"
    hook_ctl = "hookctl:epollCtl"
    suffix = "-opt"


def components(kinds, quick=120, thorough=3000):
    """reactor components (default and poll_opt builds) for the given scenario kinds"""
    out = []
    for k in kinds:
        for base in (Reactor, ReactorOpt):
            cls = type("%s_%s" % (base.__name__, k), (base,), {"kind": k, "ncases": (quick, thorough)})
            c = cls()
            c.gen_label = k
            out.append(c)
    return out
